#!/bin/bash
# mutest.sh <patch.diff> <prop> [prop...]: apply a seeded change to /repo, run the
# quick checks of the given properties, undo the change.  Prints DETECTED/MISSED.
set -u
P=$1; shift
cd ${VDIR:-/verif}
git -C /repo diff --quiet || { echo "/repo is dirty"; exit 9; }
git -C /repo apply "$P" || { echo "patch does not apply"; exit 8; }
for prop in "$@"; do
  out=$(VERIF_SEED=${VERIF_SEED:-1} ./check $prop --tier ${TIER:-quick} 2>&1); rc=$?
  if [ $rc -eq 1 ]; then echo "DETECTED by $prop: $(echo "$out" | grep -m1 '^DETAIL' | cut -c1-300)"; else echo "MISSED by $prop (exit $rc): $(echo "$out" | tail -1)"; fi
done
git -C /repo checkout -- .
