#!/bin/bash
# runall.sh [tier]: run every registered check, validate MANIFEST and evidence.
tier=${1:-quick}
cd /verif
rc=0
for p in $(python3 -c "import json;print(' '.join(c['property_id'] for c in json.load(open('MANIFEST.json'))['checks']))"); do
  start=$(date +%s)
  out=$(./check $p --tier $tier 2>&1); e=$?
  echo "$p exit=$e $(( $(date +%s) - start ))s $(echo "$out" | grep -c '^KNOWN-FINDING') known | $(echo "$out" | tail -1)"
  [ $e -ne 0 ] && { rc=1; echo "$out" | grep -v '^NOTE' | head -20; }
done
python3-vt - <<'PY'
import json, jsonschema, glob
jsonschema.validate(json.load(open('/verif/MANIFEST.json')), json.load(open('/root/.vp/MANIFEST.schema.json')))
s = json.load(open('/root/.vp/EVIDENCE.schema.json'))
for f in sorted(glob.glob('/verif/evidence/*.json')):
    jsonschema.validate(json.load(open(f)), s)
print("manifest and", len(glob.glob('/verif/evidence/*.json')), "evidence files valid")
PY
exit $rc
