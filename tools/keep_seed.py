#!/usr/bin/env python3
"""keep_seed.py <srcdir> <name> <property> <detected_by(comma)> <needs...>
Archives a confirmed seeded change under /verif/seeded/<name>/."""
import json, os, shutil, sys
src, name, prop, det = sys.argv[1:5]
needs = " ".join(sys.argv[5:])
dst = os.path.join("/verif/seeded", name)
os.makedirs(dst, exist_ok=True)
for f in ("patch.diff", "demo_test.go", "NOTES.md"):
    if os.path.exists(os.path.join(src, f)):
        shutil.copy(os.path.join(src, f), os.path.join(dst, f))
meta = dict(property=prop, breaks=prop, needs_to_manifest=needs,
            origin="independent sub-agent given only the property text and a scratch worktree",
            confirmed="tools/confirm_seed.sh: demo passes on /repo HEAD, fails with patch.diff applied; `go test -vet=off -count=1 ./...` passes with the patch",
            checks_run="tools/mutest.sh patch.diff " + " ".join(det.split(",")) + " (quick tier, VERIF_SEED=1)",
            detected_by=det.split(","))
json.dump(meta, open(os.path.join(dst, "meta.json"), "w"), indent=1)
print("kept", dst)
