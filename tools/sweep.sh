#!/bin/bash
# sweep.sh <tier> <seeds...>: run every check at several seeds; print one line per run
tier=$1; shift
for s in "$@"; do
  for p in C02 C03 C04 C05 C06 C07 C08 C09 C10 C11 C12 C13 C14 C15 C16 C17 C18 C19 C01; do
    out=$(VERIF_SEED=$s ./check $p --tier $tier 2>&1); rc=$?
    echo "seed=$s $p rc=$rc $(echo "$out" | tail -1)"
    [ $rc -ne 0 ] && echo "$out" | grep -v '^NOTE' | grep -v '^KNOWN' | head -12 | cut -c1-600
  done
done
