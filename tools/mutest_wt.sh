#!/bin/bash
# mutest_wt.sh <ABSOLUTE patch.diff> <prop> [prop...]: like mutest.sh, but the seeded
# change is applied to a scratch worktree of /repo HEAD (VERIF_REPO), so /repo itself is
# not touched.  Prints DETECTED/MISSED per property.
set -u
P=$1; shift
cd ${VDIR:-/verif}
WT=${WT:-/tmp/mutest-wt}
git -C /repo worktree remove --force $WT 2>/dev/null
git -C /repo worktree add -q --detach $WT HEAD || exit 9
git -C $WT apply "$P" || { echo "patch does not apply"; git -C /repo worktree remove --force $WT; exit 8; }
for prop in "$@"; do
  out=$(VERIF_REPO=$WT VERIF_SEED=${VERIF_SEED:-1} ./check $prop --tier ${TIER:-quick} 2>&1); rc=$?
  if [ $rc -eq 1 ]; then echo "DETECTED by $prop: $(echo "$out" | grep -m1 '^DETAIL' | cut -c1-300)"; else echo "MISSED by $prop (exit $rc): $(echo "$out" | tail -1)"; fi
done
git -C /repo worktree remove --force $WT
