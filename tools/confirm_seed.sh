#!/bin/bash
# confirm_seed.sh <srcdir> <test-regex> [pkgdir=nfs]
# Confirms a seeded change in a scratch worktree of /repo HEAD: the demo passes
# without the patch, fails with it, and the existing suite passes with it.
set -u
export GOFLAGS=-mod=mod GOPROXY=off GOSUMDB=off GOTOOLCHAIN=local
SRC=$1; RX=$2; PKG=${3:-nfs}
WT=$(mktemp -d /tmp/confirm-XXXXXX)
git -C /repo worktree add -q --detach "$WT" HEAD || exit 9
cp "$SRC/demo_test.go" "$WT/$PKG/zz_seed_demo_test.go"
cd "$WT"
r=0
go test -vet=off -count=1 ${EXTRA_FLAGS:-} -timeout 10m -run "$RX" ./$PKG/ >/tmp/confirm.$$.a 2>&1; A=$?
if ! git apply "$SRC/patch.diff"; then echo "PATCH DOES NOT APPLY"; r=8; fi
go build ./... >/dev/null 2>&1; B=$?
go test -vet=off -count=1 ${EXTRA_FLAGS:-} -timeout 10m -run "$RX" ./$PKG/ >/tmp/confirm.$$.b 2>&1; C=$?
rm -f "$WT/$PKG/zz_seed_demo_test.go"
go test -vet=off -count=1 -timeout 25m ./... >/tmp/confirm.$$.c 2>&1; D=$?
echo "demo without patch: exit $A (want 0); build with patch: $B (want 0); demo with patch: exit $C (want != 0); suite with patch: exit $D (want 0)"
[ $A -eq 0 ] && [ $B -eq 0 ] && [ $C -ne 0 ] && [ $D -eq 0 ] && [ $r -eq 0 ] && echo CONFIRMED || { echo NOT-CONFIRMED; tail -n 5 /tmp/confirm.$$.a /tmp/confirm.$$.c; }
cd /; git -C /repo worktree remove --force "$WT"; rm -f /tmp/confirm.$$.*
