#!/usr/bin/env python3
"""Generates /verif/MANIFEST.json from the table below (kept in one place so
that the manifest stays valid and in step with the checks that exist)."""
import json, os, subprocess

VERIF = os.path.dirname(os.path.dirname(os.path.abspath(__file__)))

def repo_commits():
    out = subprocess.run(["git", "-C", "/repo", "log", "--format=%H %s"], stdout=subprocess.PIPE, text=True).stdout
    return [l.split()[0] for l in out.splitlines() if " verif hooks" in l or l.split(" ", 1)[1].startswith("verif hooks")]

CHECKS = {
 "C01": dict(cat="fault_enumeration", engine="crash", tech="crash-image enumeration over recorded disk traces of sequential and concurrent workloads (every prefix cut + sampled lossy and depth-2 cuts), recovered tree matched against reference prefixes",
   text="Every prefix cut of each recorded disk trace, sampled lossy (un-barriered writes lost/reordered) cuts and cuts of the recovery run itself are recovered by the real MakeNfs and must equal the reference state after an operation prefix in [acknowledged-stable, issued]; then fsck and a continuation workload. Concurrent traces (2-4 clients confined to their own directories, journal-rejected requests next to them): every client's subtree must be a prefix state of its own sequence within [durable, issued] and the combination must respect real time across clients; an observer's READDIRPLUS pins the operation that produced its listing as durable. Directed: each kind of stable request parked at a commit hook next to journal-rejected requests, image at the instant of its reply. Held on the traces explored, not a proof.",
   note="disk model: atomic 4 KiB writes, device-wide barriers (what GoJournal assumes); traces are samples; reference model conventions of DESIGN §2.2", ref="§4 C01"),
 "C02": dict(cat="exploration", engine="seq", tech="differential monitor against an executable reference model over seeded operation sequences (direct and RPC/XDR adapters)",
   text="Seeded state-aware sequences over all 22 procedures are executed on the real server and on a reference model in lock-step; every reply and periodic whole-tree dumps (also after restarts) must agree. Restart included: the real cmd/go-nfsd binary (built without the verif tag) behind a fake port mapper, on a file disk, driven over TCP, with SIGKILL/SIGINT restarts on its disk file.",
   note="reference model conventions of DESIGN §2.2; inputs are sampled", ref="§4 C02"),
 "C03": dict(cat="exploration", engine="conc", tech="recorded concurrent histories checked for linearizability with porcupine against the reference model, schedules widened by seeded yields at lock/commit hooks and by directed parking of one request at a transaction abort or inside a disk read",
   text="Many short conflicting histories (3-4 clients) recorded at the client boundary, checked by porcupine against the sequential reference; final state included as a read. Directed histories park one request at its n-th abort or inside its n-th disk read (holding its locks and cache slots) while other requests and a sweep over more inodes than the inode cache holds run against it. Wide-root histories: whole listings of a two-block root next to removals/creations at both ends of it.",
   note="short histories (<= 24 ops); schedules are whatever the Go scheduler plus injected yields produce", ref="§4 C03"),
 "C04": dict(cat="exploration", engine="seq+crash+conc", tech="structural invariant monitor (fsck with the repository's own decoders) at quiescent points and on recovered crash images",
   text="fsck of the logical disk after every operation of seeded sequences, after concurrent histories and on crash images.",
   note="decoders of the repository are trusted (a self-consistent format change is not an alarm)", ref="§4 C04"),
 "C05": dict(cat="exploration", engine="seq+crash", tech="conservation monitor (marked = reachable, allocators = bitmaps) at shrinker-idle quiescence and after crash recovery",
   text="Build-then-delete sequences with conservation checks at quiescence, after restarts, after deleting everything, and on images cut inside multi-transaction frees followed by reuse of the numbers. Also: an orderly shutdown with three background frees in flight, 72 truncations whose shrinker threads are held in flight together, sparse files with a missing second-level index range.",
   note="in-memory allocator bitmaps are read with reflect/unsafe at quiescent points", ref="§4 C05"),
 "C06": dict(cat="exploration", engine="lock", tech="lock-order / wait-for trace monitor over hooked inode-lock acquisitions (census + concurrent stress), bounded-retry counter",
   text="Every inode-lock request is observed with the locks already held: definite wait-for cycles and self-waits are detected before blocking, the accumulated lock-order graph must be acyclic, and retries are bounded in logical steps. Background-free sequences (seven big frees, orderly shutdown with frees in flight, 72 frees held in flight) run under the monitor as well; a request for a lock held by an earlier transaction of the same goroutine is a definite self-deadlock.",
   note="only inode locks are hooked; the one other lock that requests wait on (Nfs.renameMu, serializing cross-directory renames) is covered by the progress-based wedge detector, not by the wait-for graph; unbounded liveness is replaced by the logical criteria of DESIGN §2.6", ref="§4 C06"),
 "C07": dict(cat="fault_enumeration", engine="crash", tech="crash-image enumeration with stability-aware lower bounds + reply monitor for committed level and write verifier",
   text="Write-heavy traces mixing UNSTABLE/DATA_SYNC/FILE_SYNC, COMMIT and metadata operations (also big truncations and SETATTRs that change nothing after unstable data) are cut at every point; concurrent writers with journal-rejected requests next to them; commit-gate runs; the recovered state must be a prefix containing everything acknowledged stable; committed level and verifier checked on every reply. End to end: the real binary with -unstable=false must answer every WRITE FILE_SYNC and lose nothing at a SIGKILL right after a reply; verifiers compared across real process instances.",
   note="same disk model as C01", ref="§4 C07"),
 "C08": dict(cat="exploration", engine="seq", tech="history monitor binding every issued handle to one object; dead-handle probes of every procedure and handle position; sweep over the whole inode table",
   text="Inode-reuse-heavy sequences with restarts; handle/object bijection; dead and reused-number handles must be answered NFS3ERR_STALE everywhere. Inode-table sweep: every inode number up to the last is handed out, used through its handle, freed and handed out again after a restart. With exactly one inode number free it cycles through directory / symbolic link / file with warm caches; objects used through their handles are replaced by a rename over their name and the old handle is probed in the same procedures; creations handed a half-freed inode are parked at their abort while their directory is replaced.",
   note="inputs are sampled", ref="§4 C08"),
 "C09": dict(cat="exploration", engine="seq", tech="before/after state monitor around every failing RPC on nearly-full disks (tree, free counts, fsck, cache coherence)",
   text="On nearly full disks (and, for requests that fail only at commit time because the journal rejects them, on a roomy one) every failing RPC is followed by a comparison of free counts, the whole tree against the reference (where it never happened), fsck and cache/disk coherence.",
   note="counts, not numbers, are compared (next-fit pointers may move)", ref="§4 C09"),
 "C10": dict(cat="exploration", engine="seq", tech="differential monitor live server vs. server recovered from its image vs. clean restart, plus cache/disk coherence invariant",
   text="At flushed quiescent points the live server is compared (handles, attributes, times, listing order, bytes) with a twin recovered from a copy of the disk and with itself after a clean restart; cached inodes, name caches and allocators are compared with the logical disk. After concurrent histories: flush, restart, the tree and all handles must be unchanged. End to end: the real binary on a file disk, clean shutdown by SIGINT, restart on the same file, whole tree and handles unchanged. Creations carry client times and permission bits, SETATTR sets mode and owner; mode, nlink, uid, gid, rdev, fsid and ctime take part in the comparison.",
   note="quiescent points only", ref="§4 C10"),
 "C11": dict(cat="exploration", engine="hostile", tech="crash/hang monitor on a child process under structured hostile argument generation and byte-level mutation of framed RPC messages",
   text="Hostile argument values for all NFS and MOUNT procedures of nfs.Nfs and simple.Nfs in several file-system states; the child must not die, must reply, and must pass the canary afterwards. End to end: hostile and plausible requests over TCP to the real cmd/go-nfsd process, which must stay alive and keep agreeing with the reference.",
   note="inputs are sampled; hang criterion of DESIGN §2.6", ref="§4 C11"),
 "C12": dict(cat="exploration", engine="seq", tech="content monitor: every written byte is f(write id, offset) != 0; READs and dumps compared with the reference; free-space sweep",
   text="Block-recycling sequences on small disks with shrink/regrow to unaligned sizes, sparse writes, and a sweep that hands out every free block and reads it back. One inode-table job: the only free number cycles through the kinds, a new regular file must start empty.",
   note="inputs are sampled", ref="§4 C12"),
 "C13": dict(cat="exploration", engine="enum", tech="page-protocol monitor over READDIR/READDIRPLUS enumerations with all limit classes and mutations between pages",
   text="Enumerations of directories of several shapes with count/dircount/maxcount classes; completeness, no duplicates, progress, termination within slots+2 calls, ids/handles/attributes cross-checked by LOOKUP; every directory left behind by concurrent and abort-window histories is enumerated page by page as well.",
   note="inputs are sampled", ref="§4 C13"),
 "C14": dict(cat="exploration", engine="race", tech="Go race detector over repeated concurrent stress (conflicting RPCs, shrinker, restart, statistics)",
   text="The harness is built with -race and runs the conflicting concurrent workloads repeatedly; any report with a repository or GoJournal frame is a violation. Disk-gate jobs (a request parked inside a disk read while the inode cache turns over) run in the race build too.",
   note="the race detector only sees executed interleavings", ref="§4 C14"),
 "C15": dict(cat="exploration", engine="sizes", tech="exhaustive per-size layout/bitmap/fill monitor over a dense range of disk sizes",
   text="Every size in the stated ranges is formatted by the real MakeNfs; regions, bitmaps, allocators checked; fill-to-NOSPC and delete-all on the dense range.",
   note="exhaustive over the stated ranges only", ref="§4 C15"),
 "C16": dict(cat="exploration", engine="xdr", tech="differential codec monitor (nfstypes vs. go-rpcgen rfc1813) over reflected values and arbitrary byte strings, plus dispatch probe",
   text="Values generated by reflection for every XDR type are encoded by both codecs and must give identical bytes and round-trip; arbitrary/truncated bytes must be accepted/rejected alike; each procedure number must reach its handler. End to end: all procedures through the registration done by cmd/go-nfsd's own main (real binary, TCP, MOUNT + NFS programs), replies compared with the reference, also with -stats and SIGUSR1.",
   note="rfc1813 of go-rpcgen is generated from the RFC's .x file by the same generator; hand-derived vectors guard the shared part", ref="§4 C16"),
 "C17": dict(cat="fault_enumeration", engine="simple", tech="reference-model differential + porcupine per inode + crash-image enumeration on the simple server",
   text="Sequential differential against the 30x4096-byte model (stretches with the journal's installer held back), concurrent histories partitioned by inode, crash cuts of the disk trace with simple.Recover, and observation-crash runs (a read answered while a modification is in flight must not show what a crash at that instant loses). End to end: the real cmd/simple-nfsd binary over TCP, killed (SIGKILL) right after replies and restarted on its disk file; all 30 files must read back as the specification has them. Every recovered image is followed by a continuation (three files rewritten, all read back, a second crash).",
   note="same disk model as C01", ref="§4 C17"),
 "C18": dict(cat="fault_enumeration", engine="kvs", tech="unique-id model + porcupine + crash-image enumeration on the KVS",
   text="Values carry unique ids; overlapping MultiPuts from several clients; linearizability; crash cuts: all-or-nothing per MultiPut and durability of acknowledged ones; stretches with the installer held back (gets served from the memory log); crash cuts next to callers whose oversized puts are refused.",
   note="same disk model as C01", ref="§4 C18"),
 "C19": dict(cat="exploration", engine="limits", tech="boundary differential at the limits announced by FSINFO/PATHCONF (limit-1, limit, limit+1)",
   text="Names, write sizes and file sizes around the announced limits: within => success and normal behaviour afterwards; beyond => error and no effect. Directories of maximum-length names are listed page by page with small limits; over-long extensions of existing maximum-length names must be refused.",
   note="limits are read from the replies, not hard-coded", ref="§4 C19"),
}

def main():
    impl = set(l.strip() for l in open(os.path.join(VERIF, "tools", "implemented.txt")) if l.strip())
    checks, na = [], []
    for pid in sorted(CHECKS):
        c = CHECKS[pid]
        if pid not in impl:
            na.append(dict(property_id=pid, reason="check not built yet in this snapshot of /verif (see DESIGN.md; will be claimed once its engine exists)"))
            continue
        checks.append(dict(
            property_id=pid,
            quick_cmd=f"./check {pid} --tier quick",
            thorough_cmd=f"./check {pid} --tier thorough",
            evidence_file=f"/verif/evidence/{pid}.json",
            replay_cmd_template=f"./check {pid} --replay {{path}}",
            engine=c["engine"],
            level_claimed=dict(category=c["cat"], text=c["text"], design_ref="DESIGN.md " + c["ref"]),
            level_note=c["note"],
            technique=c["tech"],
        ))
    hooks = subprocess.run(["git", "-C", "/repo", "log", "--format=%H %s"], stdout=subprocess.PIPE, text=True).stdout
    hook_commits = [l.split()[0] for l in hooks.splitlines() if l.split(" ", 1)[1].startswith("verif hooks")]
    m = dict(
        version=1,
        setup_cmd="./check --build-only",
        hooks=dict(
            guard="verif",
            enable="go build -tags verif (the harness module /verif/harness replaces github.com/mit-pdos/go-nfsd with /repo and is always built with -tags verif)",
            baseline_off_cmd="cd /repo && GOFLAGS=-mod=mod GOPROXY=off GOSUMDB=off GOTOOLCHAIN=local go test -json -vet=off -count=1 -timeout 25m ./...",
            source_commits=hook_commits,
            add_only=True,
        ),
        engines=[
            dict(name="vh", path="/verif/harness", serves_properties=sorted(impl), kind_free_text="Go harness: recording/crashing disk, reference model, tree walker, fsck, client adapters (direct, rpc), lock monitor, porcupine histories; one child process per batch"),
        ],
        checks=checks,
        not_applicable=na,
        notes="All checks: ./check <ID> --tier quick|thorough rebuilds the harness from /repo's working tree with -tags verif. VERIF_SEED selects the seed. Known findings: /verif/KNOWN_FINDINGS.txt.",
    )
    json.dump(m, open(os.path.join(VERIF, "MANIFEST.json"), "w"), indent=1)
    print("wrote MANIFEST.json:", len(checks), "checks,", len(na), "not yet claimed")

main()
