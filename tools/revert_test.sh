#!/bin/bash
# revert_test.sh: for every "fixed:" entry of KNOWN_FINDINGS.txt, undo that fix in
# /repo's working tree (reverse diff of the commit), run the quick check of its
# property, and restore the tree.  The check must report a violation.
cd /verif
grep '^fixed:' KNOWN_FINDINGS.txt | while read -r _ prop h rest; do
  prop=${prop#property=}
  [ -n "$ONLY" ] && [ "$ONLY" != "$h" ] && continue
  git -C /repo diff --quiet || { echo "/repo dirty"; exit 9; }
  git -C /repo diff $h $h~1 > /tmp/revfix.diff
  if ! git -C /repo apply /tmp/revfix.diff 2>/dev/null; then
    if ! git -C /repo apply -3 /tmp/revfix.diff >/dev/null 2>&1; then echo "$h $prop: REVERT-DOES-NOT-APPLY ($rest)" | cut -c1-150; git -C /repo reset -q --hard; continue; fi
    git -C /repo reset -q
  fi
  props="$prop $EXTRA"
  res=""
  for p in $props; do
    out=$(timeout 1500 ./check $p --tier quick 2>&1); rc=$?
    if [ $rc -eq 1 ]; then res="$res $p:DETECTED"; else res="$res $p:missed($rc)"; fi
  done
  echo "$h$res | $(echo "$rest" | cut -c1-90)"
  git -C /repo checkout -- .
done
