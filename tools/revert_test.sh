#!/bin/bash
# revert_test.sh: for every "fixed:" entry of KNOWN_FINDINGS.txt, undo that fix in
# a scratch worktree of /repo HEAD (reverse diff of the commit), run the quick check
# of its property against that worktree (VERIF_REPO), and restore it.  The check must
# report a violation.  /repo itself is not touched.  ONLY=<hash> EXTRA="<props>"
cd ${VDIR:-/verif}
WT=${WT:-/tmp/revert-wt}
git -C /repo worktree remove --force $WT 2>/dev/null
git -C /repo worktree add -q --detach $WT HEAD || exit 9
grep '^fixed:' KNOWN_FINDINGS.txt | while read -r _ prop h rest; do
  prop=${prop#property=}
  [ -n "$ONLY" ] && [ "$ONLY" != "$h" ] && continue
  git -C /repo diff $h $h~1 > $WT.diff
  if ! git -C $WT apply $WT.diff 2>/dev/null; then
    if ! git -C $WT apply -3 $WT.diff >/dev/null 2>&1; then echo "$h $prop: REVERT-DOES-NOT-APPLY ($rest)" | cut -c1-150; git -C $WT reset -q --hard; continue; fi
    git -C $WT reset -q
  fi
  props="$prop $EXTRA"
  res=""
  for p in $props; do
    out=$(VERIF_REPO=$WT timeout 1500 ./check $p --tier quick 2>&1); rc=$?
    if [ $rc -eq 1 ]; then res="$res $p:DETECTED"; else res="$res $p:missed($rc)"; fi
  done
  echo "$h$res | $(echo "$rest" | cut -c1-90)"
  git -C $WT checkout -q -- .
  git -C $WT clean -fdq
done
git -C /repo worktree remove --force $WT; rm -f $WT.diff
