#!/bin/bash
# thorough_all.sh [props...]: run the thorough tier of the given (default: all) checks, with timing
props=${@:-C02 C03 C04 C06 C08 C09 C10 C12 C13 C14 C15 C16 C17 C18 C19 C11 C07 C05 C01}
for p in $props; do
  s=$(date +%s)
  out=$(VERIF_SEED=${VERIF_SEED:-1} ./check $p --tier thorough 2>&1); rc=$?
  echo "$p rc=$rc $(( $(date +%s) - s ))s $(echo "$out" | tail -1)"
  [ $rc -ne 0 ] && echo "$out" | grep -v '^NOTE' | grep -v '^KNOWN' | head -12 | cut -c1-700
done
