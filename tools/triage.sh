#!/bin/bash
# triage.sh <slot> <seeddir> <pkg> <prop...>: confirm a seeded change (tools/confirm_seed.sh)
# and run the quick checks of the given properties against it, in a private copy of /verif
# (own build output and evidence) and a private worktree, so that several can run at once.
slot=$1; dir=$2; pkg=$3; shift 3
cd /verif
echo "== $dir"
EXTRA_FLAGS=${EXTRA_FLAGS:-} tools/confirm_seed.sh "$dir" TestSeedDemo "$pkg" | tail -3
V=/tmp/vslot-$slot
mkdir -p $V
rsync -a --delete --exclude .build --exclude replays --exclude .git --exclude seeded /verif/ $V/
VDIR=$V WT=/tmp/mutest-wt-$slot GOCACHE=/verif/.build/gocache tools/mutest_wt.sh "$dir/patch.diff" "$@"
