package main

// Inode-table sweep (C08, also C19/C05): every inode number the table has is
// handed out, used through its handle, freed and handed out again.
//
//   - objects are created until the server refuses (NFS3ERR_NOSPC); the handles
//     returned must be pairwise distinct, their numbers must be exactly
//     2..NInode-1 (no number twice, none skipped, the last one included), and
//     every one of them must work: GETATTR through the handle answers OK with
//     the file id that was announced at creation, LOOKUP of its name gives the
//     same handle back;
//   - the refused creation must leave no trace (free counts unchanged);
//   - everything is removed: every old handle must now be stale (sampled: the
//     first and last 20 numbers and every 61st);
//   - after a restart everything is created again: the new handles must all
//     differ from the old handle of the same number, the old ones stay stale;
//   - finally all objects are removed and the free counts must be back at the
//     initial values.

import (
	"bytes"
	"fmt"
)

func runInoTable(seed uint64, cas int, tier string) *JobRes {
	out := &JobRes{Counters: Counter{}}
	mon.Off()
	viol := func(class, f string, a ...interface{}) {
		if len(out.Viol) < 10 {
			out.Viol = append(out.Viol, Violation{Class: class, Msg: "inode-table sweep: " + fmt.Sprintf(f, a...)})
		}
	}
	rng := NewRng(mix(seed, uint64(cas)+4242))
	srv := StartSrv(NewCDisk(30000), SrvOpts{Unstable: true, RPC: cas%2 == 1})
	st := srv.N.VerifFsState()
	ninode := uint64(st.Super.NInode())
	freeI0, freeB0 := st.Ialloc.NumFree(), st.Balloc.NumFree()
	kinds := []OpKind{OpCreate, OpCreate, OpCreate, OpCreate, OpCreate, OpCreate, OpSymlink, OpMkdir}
	// a few directories so that no directory grows beyond a few hundred blocks
	var dirs [][]byte
	for i := 0; i < 6; i++ {
		r := doOp(srv.API, &Op{K: OpMkdir, H: srv.Root, Name: fmt.Sprintf("dir%d", i)})
		if r.Stat != stOK {
			viol("handle", "setup MKDIR fails: %d", r.Stat)
			return out
		}
		dirs = append(dirs, r.FH)
	}
	type obj struct {
		dir    int
		name   string
		fh     []byte
		fileid uint64
		kind   OpKind
	}
	fill := func(round int) []obj {
		var objs []obj
		byInum := map[uint64]int{}
		for n := 0; n < 40000; n++ {
			k := kinds[rng.Intn(len(kinds))]
			di := rng.Intn(len(dirs))
			name := fmt.Sprintf("r%d-%05d", round, n)
			r := doOp(srv.API, &Op{K: k, H: dirs[di], Name: name, Target: "t"})
			out.Evals++
			if r.Stat == stNOSPC {
				break
			}
			if r.Stat != stOK {
				viol("handle", "round %d: %s of object #%d fails with status %d (only NFS3ERR_NOSPC is expected, once the table is full)", round, k, n, r.Stat)
				return objs
			}
			if len(r.FH) != 16 {
				viol("handle", "round %d: %s returns a handle of %d bytes", round, k, len(r.FH))
				return objs
			}
			inum := leU64(r.FH)
			if j, dup := byInum[inum]; dup {
				viol("handle", "round %d: inode number %d handed out twice while both objects exist: %s and %s", round, inum, objs[j].name, name)
				return objs
			}
			byInum[inum] = len(objs)
			objs = append(objs, obj{dir: di, name: name, fh: r.FH, fileid: r.Fileid, kind: k})
		}
		// the numbers handed out must be exactly those that were free
		lo, hi := ^uint64(0), uint64(0)
		for i := range byInum {
			if i < lo {
				lo = i
			}
			if i > hi {
				hi = i
			}
		}
		out.Counters[fmt.Sprintf("round%d_objects_until_the_table_was_full", round)] = len(objs)
		if uint64(len(objs)) != freeI0-uint64(len(dirs)) {
			viol("handle", "round %d: the table was reported full after %d objects, %d inode numbers were free", round, len(objs), freeI0-uint64(len(dirs)))
		}
		if hi != ninode-1 {
			viol("handle", "round %d: the highest inode number handed out is %d, the table ends at %d", round, hi, ninode-1)
		}
		out.Counters["highest_inode_number_used"] = int(hi)
		// every handle works
		for i, o := range objs {
			ga := doOp(srv.API, &Op{K: OpGetattr, H: o.fh})
			out.Evals++
			if ga.Stat != stOK {
				viol("handle", "round %d: GETATTR through the handle of live object %s (inode %d, %s) answers status %d", round, o.name, leU64(o.fh), o.kind, ga.Stat)
				break
			}
			if ga.Fileid != leU64(o.fh) || (o.fileid != 0 && ga.Fileid != o.fileid) {
				viol("handle", "round %d: %s: handle says inode %d, creation reply said file id %d, GETATTR says %d", round, o.name, leU64(o.fh), o.fileid, ga.Fileid)
				break
			}
			if i%7 == 0 || leU64(o.fh) >= ninode-8 {
				lk := doOp(srv.API, &Op{K: OpLookup, H: dirs[o.dir], Name: o.name})
				if lk.Stat != stOK || !bytes.Equal(lk.FH, o.fh) {
					viol("handle", "round %d: LOOKUP %s: status %d handle %x, created with handle %x", round, o.name, lk.Stat, lk.FH, o.fh)
					break
				}
				switch o.kind {
				case OpSymlink:
					if rl := doOp(srv.API, &Op{K: OpReadlink, H: o.fh}); rl.Stat != stOK || rl.Target != "t" {
						viol("handle", "round %d: READLINK %s: status %d target %q", round, o.name, rl.Stat, rl.Target)
					}
				case OpMkdir:
					if up := doOp(srv.API, &Op{K: OpLookup, H: o.fh, Name: ".."}); up.Stat != stOK || !bytes.Equal(up.FH, dirs[o.dir]) {
						viol("handle", "round %d: LOOKUP %s/..: status %d handle %x, parent is %x", round, o.name, up.Stat, up.FH, dirs[o.dir])
					}
				case OpCreate:
					w := doOp(srv.API, &Op{K: OpWrite, H: o.fh, Off: 0, Count: 10, DataLen: 10, Uid: uint64(i) + 1, Stable: 0})
					if w.Stat != stOK && w.Stat != stNOSPC {
						viol("handle", "round %d: WRITE through the handle of %s (inode %d): status %d", round, o.name, leU64(o.fh), w.Stat)
					}
				}
			}
		}
		// a creation refused for lack of inodes leaves no trace
		srv.WaitIdle()
		fi, fb := st.Ialloc.NumFree(), st.Balloc.NumFree()
		for _, k := range []OpKind{OpCreate, OpMkdir, OpSymlink} {
			r := doOp(srv.API, &Op{K: k, H: dirs[0], Name: "onemore", Target: "t"})
			if r.Stat == stOK {
				viol("handle", "round %d: %s succeeds although the inode table is full (handle %x)", round, k, r.FH)
			}
		}
		srv.WaitIdle()
		if st.Ialloc.NumFree() != fi || st.Balloc.NumFree() != fb {
			viol("afterfail", "round %d: refused creations changed the free counts: inodes %d -> %d, blocks %d -> %d", round, fi, st.Ialloc.NumFree(), fb, st.Balloc.NumFree())
		}
		// exactly one free number, warm caches: the number cycles through the
		// kinds (directory, directory again, symbolic link, file, directory...).
		// Every creation must succeed (one number is free) and start from a clean
		// object: a new handle, no old size, bytes, target or entries.
		vi := -1
		for i, o := range objs {
			if o.kind == OpCreate && i%3 == 1 {
				vi = i
				break
			}
		}
		if vi >= 0 && len(out.Viol) == 0 {
			v := objs[vi]
			d := dirs[v.dir]
			if r := doOp(srv.API, &Op{K: OpRemove, H: d, Name: v.name}); r.Stat != stOK {
				viol("handle", "round %d: REMOVE %s: status %d", round, v.name, r.Stat)
				return objs
			}
			X := leU64(v.fh)
			seenFH := map[string]bool{string(v.fh): true}
			cyc := []OpKind{OpMkdir, OpMkdir, OpSymlink, OpCreate, OpMkdir, OpSymlink, OpMkdir, OpCreate, OpCreate}
			for ci, k := range cyc {
				name := fmt.Sprintf("cyc%d-%d", round, ci)
				target := fmt.Sprintf("/target/of/incarnation/%d/%s", ci, longName(30+ci*7, 't'))
				r := doOp(srv.API, &Op{K: k, H: d, Name: name, Target: target})
				out.Evals++
				if r.Stat != stOK {
					viol("handle", "round %d: exactly one inode number (%d) is free, it was last used by a %s; %s %s fails with status %d on the running server", round, X, map[bool]string{true: "regular file", false: cyc[maxInt(ci-1, 0)].String() + " object"}[ci == 0], k, name, r.Stat)
					return objs
				}
				if leU64(r.FH) != X {
					viol("handle", "round %d: the only free inode number is %d, %s returned a handle for number %d", round, X, k, leU64(r.FH))
					return objs
				}
				if seenFH[string(r.FH)] {
					viol("handle", "round %d: %s %s was given handle %x, which an earlier object of the same number had", round, k, name, r.FH)
					return objs
				}
				seenFH[string(r.FH)] = true
				ga := doOp(srv.API, &Op{K: OpGetattr, H: r.FH})
				switch k {
				case OpCreate:
					rd := doOp(srv.API, &Op{K: OpRead, H: r.FH, Off: 0, Count: 8192})
					if ga.Stat != stOK || ga.Size != 0 || rd.Stat != stOK || len(rd.Data) != 0 {
						viol("content", "round %d: new regular file %s on the reused inode number %d: GETATTR status %d size %d, READ status %d returns %d bytes %q (the number was a %s before)", round, name, X, ga.Stat, ga.Size, rd.Stat, len(rd.Data), shortName(string(rd.Data)), cyc[maxInt(ci-1, 0)])
						return objs
					}
					w := doOp(srv.API, &Op{K: OpWrite, H: r.FH, Off: 0, Count: 300, DataLen: 300, Uid: uint64(ci) + 77, Stable: 2})
					if w.Stat != stOK && w.Stat != stNOSPC {
						viol("handle", "round %d: WRITE to %s: status %d", round, name, w.Stat)
					}
				case OpSymlink:
					rl := doOp(srv.API, &Op{K: OpReadlink, H: r.FH})
					if rl.Stat != stOK || rl.Target != target {
						viol("content", "round %d: READLINK of new symbolic link %s on the reused number %d: status %d target %q, want %q", round, name, X, rl.Stat, shortName(rl.Target), shortName(target))
						return objs
					}
				case OpMkdir:
					for _, nm := range []string{".", ".."} {
						lk := doOp(srv.API, &Op{K: OpLookup, H: r.FH, Name: nm})
						want := r.FH
						if nm == ".." {
							want = d
						}
						if lk.Stat != stOK || !bytes.Equal(lk.FH, want) {
							viol("handle", "round %d: LOOKUP %s/%s (new directory on the reused number %d): status %d handle %x, want %x", round, name, nm, X, lk.Stat, lk.FH, want)
							return objs
						}
					}
					ls := doOp(srv.API, &Op{K: OpReaddir, H: r.FH, Count: 4096})
					if ls.Stat != stOK || len(ls.Ents) != 2 {
						viol("handle", "round %d: new directory %s on the reused number %d lists %d entries (status %d), want '.' and '..'", round, name, X, len(ls.Ents), ls.Stat)
						return objs
					}
				}
				if ci == len(cyc)-1 {
					objs[vi] = obj{dir: v.dir, name: name, fh: r.FH, fileid: r.Fileid, kind: k}
					break
				}
				rk := OpRemove
				if k == OpMkdir {
					rk = OpRmdir
				}
				if rr := doOp(srv.API, &Op{K: rk, H: d, Name: name}); rr.Stat != stOK {
					viol("handle", "round %d: %s %s: status %d", round, rk, name, rr.Stat)
					return objs
				}
				if g := doOp(srv.API, &Op{K: OpGetattr, H: r.FH}); g.Stat != stSTALE {
					viol("handle", "round %d: GETATTR through the handle of the removed %s answers status %d, want NFS3ERR_STALE", round, name, g.Stat)
					return objs
				}
			}
			out.Counters["kind_cycles_on_the_only_free_inode_number"] += len(cyc)
		}
		return objs
	}
	removeAll := func(objs []obj) {
		for _, o := range objs {
			k := OpRemove
			if o.kind == OpMkdir {
				k = OpRmdir
			}
			if r := doOp(srv.API, &Op{K: k, H: dirs[o.dir], Name: o.name}); r.Stat != stOK {
				viol("handle", "%s %s fails with status %d", k, o.name, r.Stat)
				return
			}
		}
		srv.WaitIdle()
	}
	staleCheck := func(objs []obj, when string) {
		for i, o := range objs {
			inum := leU64(o.fh)
			if !(i%61 == 0 || inum < 22 || inum >= ninode-20) {
				continue
			}
			for _, op := range []*Op{{K: OpGetattr, H: o.fh}, {K: OpLookup, H: o.fh, Name: "x"}, {K: OpRead, H: o.fh, Count: 10}, {K: OpSetattr, H: o.fh, SetSize: true, Size: 0}} {
				r := doOp(srv.API, op)
				out.Evals++
				if r.Stat != stSTALE {
					viol("handle", "%s: %s through the handle of the removed object %s (inode %d) answers status %d, want NFS3ERR_STALE", when, op.K, o.name, inum, r.Stat)
					return
				}
			}
		}
	}
	objs1 := fill(1)
	if len(out.Viol) > 0 {
		return out
	}
	removeAll(objs1)
	staleCheck(objs1, "after removing everything")
	// restart, fill again
	srv.Flush()
	srv.Shutdown()
	srv = StartSrv(srv.D, srv.Opts)
	st = srv.N.VerifFsState()
	if st.Ialloc.NumFree() != freeI0-uint64(len(dirs)) {
		viol("leak", "after removing everything and a restart %d inode numbers are free, %d were free before the first round", st.Ialloc.NumFree(), freeI0-uint64(len(dirs)))
	}
	objs2 := fill(2)
	old := map[uint64][]byte{}
	for _, o := range objs1 {
		old[leU64(o.fh)] = o.fh
	}
	reused := 0
	for _, o := range objs2 {
		if h, ok := old[leU64(o.fh)]; ok {
			reused++
			if bytes.Equal(h, o.fh) {
				viol("handle", "round 2: %s got handle %x, which was the handle of a different, removed object", o.name, o.fh)
				break
			}
		}
	}
	out.Counters["inode_numbers_reused_for_a_new_object"] = reused
	staleCheck(objs1, "after the numbers were reused")
	if len(out.Viol) == 0 {
		removeAll(objs2)
		staleCheck(objs2, "after removing everything again")
		for i := range dirs {
			doOp(srv.API, &Op{K: OpRmdir, H: srv.Root, Name: fmt.Sprintf("dir%d", i)})
		}
		srv.WaitIdle()
		fr := srv.Fsck(FsckOpts{CheckCaches: true})
		for _, m := range fr.Errs {
			viol("fsck", "at the end: %s", m)
		}
		for _, m := range fr.Leaks {
			viol("leak", "at the end: %s", m)
		}
		if st.Ialloc.NumFree() != freeI0 || st.Balloc.NumFree() != freeB0 {
			viol("leak", "at the end %d inodes and %d blocks are free, initially %d and %d", st.Ialloc.NumFree(), st.Balloc.NumFree(), freeI0, freeB0)
		}
	}
	srv.Shutdown()
	out.Distinct = []string{"inode-table:filled-twice", fmt.Sprintf("inode-table:last-number-%d-used", ninode-1)}
	out.Samples = []interface{}{map[string]interface{}{"engine": "inotable", "inodes": ninode, "objects_round_1": len(objs1), "objects_round_2": len(objs2)}}
	return out
}
