package main

// C15: every accepted disk size yields a consistent, fully usable file system.

import (
	"fmt"

	"github.com/mit-pdos/go-journal/common"
	"github.com/mit-pdos/go-nfsd/nfs"
)

type SizesRes struct {
	Viol     []Violation
	Checked  int
	Filled   int
	Rejected int
	Combos   map[string]bool
	Sample   []interface{}
	MinAccepted uint64
}

// tryFormat runs MakeNfs on a blank disk of the given size; a panic means the
// size is not accepted.
func tryFormat(size uint64) (srv *Srv, accepted bool, why string) {
	defer func() {
		if e := recover(); e != nil {
			srv, accepted, why = nil, false, fmt.Sprint(e)
		}
	}()
	d := NewCDisk(size)
	s := &Srv{D: d, Opts: SrvOpts{Unstable: true}}
	s.N = nfs.MakeNfs(d)
	s.API = s.N
	s.Root = rootHandle()
	return s, true, ""
}

func checkSize(size uint64, fill bool, res *SizesRes) {
	viol := func(f string, a ...interface{}) {
		if len(res.Viol) < 12 {
			res.Viol = append(res.Viol, Violation{Class: "size", Msg: fmt.Sprintf("disk size %d: ", size) + fmt.Sprintf(f, a...)})
		}
	}
	srv, ok, _ := tryFormat(size)
	if !ok {
		res.Rejected++
		return
	}
	res.Checked++
	st := srv.N.VerifFsState()
	sup := st.Super
	// regions: log | block bitmap | inode bitmap | inode table | data
	logEnd := uint64(common.LOGSIZE)
	bb, ib, is, ds, mx := uint64(sup.BitmapBlockStart()), uint64(sup.BitmapInodeStart()), uint64(sup.InodeStart()), uint64(sup.DataStart()), uint64(sup.MaxBnum())
	if !(logEnd <= bb && bb < ib && ib < is && is < ds && ds < mx && mx <= size) {
		viol("regions are not ordered/disjoint/inside the disk: log end %d, block bitmap %d, inode bitmap %d, inodes %d, data %d, max %d", logEnd, bb, ib, is, ds, mx)
	}
	if ib-bb != sup.NBlockBitmap || is-ib != sup.NInodeBitmap {
		viol("bitmap regions have wrong length")
	}
	if sup.NBlockBitmap*common.NBITBLOCK < size {
		viol("block bitmap (%d blocks) cannot describe %d blocks", sup.NBlockBitmap, size)
	}
	if uint64(sup.NInode()) > sup.NInodeBitmap*common.NBITBLOCK {
		viol("inode bitmap cannot describe %d inodes", sup.NInode())
	}
	if (ds-is)*common.INODEBLK != uint64(sup.NInode()) {
		viol("inode table of %d blocks does not hold %d inodes", ds-is, sup.NInode())
	}
	res.Combos[fmt.Sprintf("nbm=%d/mod8=%d/mod32768=%s", sup.NBlockBitmap, size%8, modClass(size))] = true
	// fresh bitmaps: exactly the non-data blocks (+ the root directory's
	// blocks) and inodes 0 and 1; fsck verifies marked <=> owned / non-data
	fr := srv.Fsck(FsckOpts{CheckCaches: true})
	for _, m := range append(append(fr.Errs, fr.Leaks...), fr.CacheErrs...) {
		viol("fresh file system: %s", m)
	}
	if fr.NInodes != 1 {
		viol("fresh file system has %d inodes in use", fr.NInodes)
	}
	total := mx - ds
	if fr.FreeBlocks+uint64(fr.NBlocks) != total || fr.MemFreeBlk != fr.FreeBlocks {
		viol("fresh file system: %d free on disk, %d free in memory, %d owned, data region has %d blocks", fr.FreeBlocks, fr.MemFreeBlk, fr.NBlocks, total)
	}
	if fr.FreeInodes != uint64(sup.NInodeBitmap*common.NBITBLOCK)-2 || fr.MemFreeIno != fr.FreeInodes {
		viol("fresh file system: %d free inodes on disk, %d in memory", fr.FreeInodes, fr.MemFreeIno)
	}
	// the root must be usable
	ga := doOp(srv.API, &Op{K: OpGetattr, H: srv.Root})
	lk := doOp(srv.API, &Op{K: OpLookup, H: srv.Root, Name: ".."})
	if ga.Stat != stOK || lk.Stat != stOK {
		viol("root directory unusable: GETATTR %d LOOKUP('..') %d", ga.Stat, lk.Stat)
	}
	if fill && len(res.Viol) == 0 {
		fillDiskCompletely(srv, size, total, fr.FreeBlocks, viol)
		res.Filled++
	}
	if len(res.Sample) < 2 {
		res.Sample = append(res.Sample, map[string]interface{}{"size": size, "block_bitmap_blocks": sup.NBlockBitmap, "data_start": ds, "max_bnum": mx, "free_blocks_fresh": fr.FreeBlocks, "filled": fill})
	}
	srv.WaitIdle()
	srv.Shutdown()
}

func modClass(size uint64) string {
	m := size % 32768
	switch {
	case m == 0:
		return "0"
	case m < 41:
		return "+small"
	case m > 32768-41:
		return "-small"
	}
	return "mid"
}

// fillDiskCompletely: allocate the whole data region through normal
// operations (one big file, then single blocks into small files), require
// free = 0 and every data block owned exactly once, then delete everything
// and require free = initial.
func fillDiskCompletely(srv *Srv, size, total, free0 uint64, viol func(string, ...interface{})) {
	api := srv.API
	st := srv.N.VerifFsState()
	var small [][]byte
	for i := 0; i < 12; i++ {
		r := doOp(api, &Op{K: OpCreate, H: srv.Root, Name: fmt.Sprintf("s%d", i)})
		if r.Stat != stOK {
			viol("CREATE of small file %d fails with %d", i, r.Stat)
			return
		}
		small = append(small, r.FH)
	}
	big := doOp(api, &Op{K: OpCreate, H: srv.Root, Name: "big"})
	if big.Stat != stOK {
		viol("CREATE big fails: %d", big.Stat)
		return
	}
	off := uint64(0)
	uid := uint64(1)
	for st.Balloc.NumFree() > 0 {
		n := uint32(200 * BlockSize)
		uid++
		op := &Op{K: OpWrite, H: big.FH, Off: off, Count: n, DataLen: n, Uid: uid, Stable: 0}
		r := doOp(api, op)
		if debugOn {
			fmt.Println("DEBUG fill write off", off, "->", r.Stat, r.Count, "free now", st.Balloc.NumFree())
		}
		if r.Stat != stOK || r.Count == 0 {
			break
		}
		off += uint64(r.Count)
		if r.Count < n {
			break
		}
	}
	// the moment the disk first ran out (possibly in the middle of a request):
	// bitmaps, allocators and ownership must agree right now
	srv.WaitIdle()
	frm := srv.Fsck(FsckOpts{CheckCaches: true})
	for _, m := range append(append(frm.Errs, frm.Leaks...), frm.CacheErrs...) {
		viol("when the disk first ran out of space: %s", m)
	}
	for i := 0; st.Balloc.NumFree() > 0 && i < 4000; i++ {
		uid++
		f := small[i%len(small)]
		ga := doOp(api, &Op{K: OpGetattr, H: f})
		r := doOp(api, &Op{K: OpWrite, H: f, Off: ((ga.Size + BlockSize - 1) / BlockSize) * BlockSize, Count: BlockSize, DataLen: BlockSize, Uid: uid, Stable: 0})
		if r.Stat != stOK {
			// the remaining blocks may only be usable as data once an index
			// block fits; try the next file
			if i > 3*len(small) {
				break
			}
		}
	}
	doOp(api, &Op{K: OpCommit, H: big.FH})
	srv.WaitIdle()
	fr := srv.Fsck(FsckOpts{CheckCaches: true})
	for _, m := range append(append(fr.Errs, fr.Leaks...), fr.CacheErrs...) {
		viol("after filling the disk: %s", m)
	}
	if fr.FreeBlocks > 2 {
		// up to two blocks can be unusable at the very end: a data block in a
		// new indirect range needs its index block(s) as well
		viol("after filling the disk %d blocks are still free (NOSPC was reported although space is left)", fr.FreeBlocks)
	}
	if uint64(fr.NBlocks)+fr.FreeBlocks != total {
		viol("after filling the disk: %d blocks owned + %d free != %d blocks of the data region", fr.NBlocks, fr.FreeBlocks, total)
	}
	// delete everything
	doOp(api, &Op{K: OpRemove, H: srv.Root, Name: "big"})
	for i := range small {
		doOp(api, &Op{K: OpRemove, H: srv.Root, Name: fmt.Sprintf("s%d", i)})
	}
	srv.WaitIdle()
	fr2 := srv.Fsck(FsckOpts{CheckCaches: true})
	for _, m := range append(append(fr2.Errs, fr2.Leaks...), fr2.CacheErrs...) {
		viol("after deleting everything: %s", m)
	}
	if fr2.FreeBlocks != free0 || fr2.MemFreeBlk != free0 || fr2.NInodes != 1 {
		viol("after deleting everything: %d blocks free on disk, %d in memory (initially %d), %d inodes in use", fr2.FreeBlocks, fr2.MemFreeBlk, free0, fr2.NInodes)
	}
}

// findMinSize finds the smallest accepted size by trying downwards.
func findMinSize() uint64 {
	s := uint64(1600)
	for s > 1 {
		srv, ok, _ := tryFormat(s - 1)
		if !ok {
			break
		}
		srv.Shutdown()
		s--
	}
	return s
}

func runSizes(from, to uint64, fillEvery int, seed uint64) *SizesRes {
	res := &SizesRes{Combos: map[string]bool{}}
	for sz := from; sz < to; sz++ {
		childLog("size %d", sz)
		fill := fillEvery > 0 && ((sz+seed)%uint64(fillEvery) == 0 || sz < 1580)
		checkSize(sz, fill, res)
		if len(res.Viol) > 0 {
			break
		}
	}
	return res
}
