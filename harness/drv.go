package main

// Client adapters (DESIGN §2.4).  doOp issues one typed operation through the
// handler interface generated from the protocol description; that interface
// is implemented by the real server (*nfs.Nfs, *simple.Nfs) and by rpcStub,
// which sends the same request through rfc1057 + XDR over an in-process pipe
// to an rfc1057.Server registered exactly like cmd/go-nfsd does.

import (
	"fmt"
	"net"
	"os"
	"sync"
	"sync/atomic"
	"time"

	nt "github.com/mit-pdos/go-nfsd/nfstypes"
	"github.com/zeldovich/go-rpcgen/rfc1057"
	"github.com/zeldovich/go-rpcgen/xdr"
)

type API = nt.NFS_PROGRAM_NFS_V3_handler
type MountAPI = nt.MOUNT_PROGRAM_MOUNT_V3_handler

func fh3(b []byte) nt.Nfs_fh3 { return nt.Nfs_fh3{Data: b} }

func tm(t [2]uint32) nt.Nfstime3 {
	return nt.Nfstime3{Seconds: nt.Uint32(t[0]), Nseconds: nt.Uint32(t[1])}
}

func (r *Res) setAttr(a nt.Post_op_attr) {
	if a.Attributes_follow {
		r.setFattr(a.Attributes)
	}
}

func (r *Res) setFattr(f nt.Fattr3) {
	r.HasAttr = true
	r.Ftype = uint32(f.Ftype)
	r.Size = uint64(f.Size)
	r.Fileid = uint64(f.Fileid)
	r.Nlink = uint32(f.Nlink)
	r.Attrs = fmt.Sprintf("mode=%o nlink=%d uid=%d gid=%d rdev=%d/%d fsid=%d ctime=%d.%d", uint32(f.Mode), uint32(f.Nlink), uint32(f.Uid), uint32(f.Gid), uint32(f.Rdev.Specdata1), uint32(f.Rdev.Specdata2), uint64(f.Fsid), uint32(f.Ctime.Seconds), uint32(f.Ctime.Nseconds))
	r.Atime = [2]uint32{uint32(f.Atime.Seconds), uint32(f.Atime.Nseconds)}
	r.Mtime = [2]uint32{uint32(f.Mtime.Seconds), uint32(f.Mtime.Nseconds)}
}

func (r *Res) setFH(h nt.Post_op_fh3) {
	if h.Handle_follows {
		r.FH = append([]byte{}, h.Handle.Data...)
	}
}

func sattrOf(op *Op) nt.Sattr3 {
	var s nt.Sattr3
	if op.SetSize {
		s.Size.Set_it = true
		s.Size.Size = nt.Size3(op.Size)
	}
	s.Atime.Set_it = nt.Time_how(op.SetAtime)
	s.Atime.Atime = tm(op.Atime)
	s.Mtime.Set_it = nt.Time_how(op.SetMtime)
	s.Mtime.Mtime = tm(op.Mtime)
	if op.SetPerm {
		s.Mode.Set_it = true
		s.Mode.Mode = nt.Mode3(op.Perm)
	}
	if op.SetIDs {
		s.Uid.Set_it, s.Gid.Set_it = true, true
		s.Uid.Uid, s.Gid.Gid = nt.Uid3(op.UidV), nt.Gid3(op.GidV)
	}
	return s
}

// doOp performs op through api and normalises the reply.
func doOp(api API, op *Op) *Res {
	if !raceMode {
		atomic.AddInt64(&rpcsOutstanding, 1)
		mon.NoteRPC()
		defer atomic.AddInt64(&rpcsOutstanding, -1)
	}
	r := &Res{}
	switch op.K {
	case OpNull:
		api.NFSPROC3_NULL()
	case OpGetattr:
		x := api.NFSPROC3_GETATTR(nt.GETATTR3args{Object: fh3(op.H)})
		r.Stat = uint32(x.Status)
		if x.Status == nt.NFS3_OK {
			r.setFattr(x.Resok.Obj_attributes)
		}
	case OpSetattr:
		sa := nt.SETATTR3args{Object: fh3(op.H), New_attributes: sattrOf(op)}
		if op.Guard {
			sa.Guard.Check = true
			sa.Guard.Obj_ctime = nt.Nfstime3{Seconds: 12345, Nseconds: 678}
		}
		x := api.NFSPROC3_SETATTR(sa)
		r.Stat = uint32(x.Status)
		if x.Status == nt.NFS3_OK {
			r.setAttr(x.Resok.Obj_wcc.After)
		}
	case OpLookup:
		x := api.NFSPROC3_LOOKUP(nt.LOOKUP3args{What: nt.Diropargs3{Dir: fh3(op.H), Name: nt.Filename3(op.Name)}})
		r.Stat = uint32(x.Status)
		if x.Status == nt.NFS3_OK {
			r.FH = append([]byte{}, x.Resok.Object.Data...)
			r.setAttr(x.Resok.Obj_attributes)
		}
	case OpAccess:
		x := api.NFSPROC3_ACCESS(nt.ACCESS3args{Object: fh3(op.H), Access: 0x3f})
		r.Stat = uint32(x.Status)
	case OpReadlink:
		x := api.NFSPROC3_READLINK(nt.READLINK3args{Symlink: fh3(op.H)})
		r.Stat = uint32(x.Status)
		if x.Status == nt.NFS3_OK {
			r.Target = string(x.Resok.Data)
		}
	case OpRead:
		x := api.NFSPROC3_READ(nt.READ3args{File: fh3(op.H), Offset: nt.Offset3(op.Off), Count: nt.Count3(op.Count)})
		r.Stat = uint32(x.Status)
		if x.Status == nt.NFS3_OK {
			r.Data = x.Resok.Data
			r.Count = uint32(x.Resok.Count)
			r.Eof = x.Resok.Eof
			r.setAttr(x.Resok.File_attributes)
		}
	case OpWrite:
		op.Materialize()
		// never hand our buffer to the server: full-block writes are retained
		// by the journal
		data := append([]byte{}, op.Data...)
		x := api.NFSPROC3_WRITE(nt.WRITE3args{File: fh3(op.H), Offset: nt.Offset3(op.Off), Count: nt.Count3(op.Count), Stable: nt.Stable_how(op.Stable), Data: data})
		// the request buffer belongs to the caller again once the reply is
		// there: reuse it (a server that kept a reference to it - the journal
		// retains full-block buffers - now serves and installs these bytes)
		for i := range data {
			data[i] = ^data[i]
		}
		r.Stat = uint32(x.Status)
		if x.Status == nt.NFS3_OK {
			r.Count = uint32(x.Resok.Count)
			r.Committed = int(x.Resok.Committed)
			r.Verf = x.Resok.Verf
			r.setAttr(x.Resok.File_wcc.After)
		}
	case OpCreate:
		how := nt.Createhow3{Mode: nt.Createmode3(op.Mode)}
		// initial attributes of the new file (UNCHECKED/GUARDED): size, times, permission bits
		how.Obj_attributes = sattrOf(op)
		x := api.NFSPROC3_CREATE(nt.CREATE3args{Where: nt.Diropargs3{Dir: fh3(op.H), Name: nt.Filename3(op.Name)}, How: how})
		r.Stat = uint32(x.Status)
		if x.Status == nt.NFS3_OK {
			r.setFH(x.Resok.Obj)
			r.setAttr(x.Resok.Obj_attributes)
		}
	case OpMkdir:
		x := api.NFSPROC3_MKDIR(nt.MKDIR3args{Where: nt.Diropargs3{Dir: fh3(op.H), Name: nt.Filename3(op.Name)}, Attributes: sattrOf(op)})
		r.Stat = uint32(x.Status)
		if x.Status == nt.NFS3_OK {
			r.setFH(x.Resok.Obj)
			r.setAttr(x.Resok.Obj_attributes)
		}
	case OpSymlink:
		x := api.NFSPROC3_SYMLINK(nt.SYMLINK3args{Where: nt.Diropargs3{Dir: fh3(op.H), Name: nt.Filename3(op.Name)}, Symlink: nt.Symlinkdata3{Symlink_attributes: sattrOf(op), Symlink_data: nt.Nfspath3(op.Target)}})
		r.Stat = uint32(x.Status)
		if x.Status == nt.NFS3_OK {
			r.setFH(x.Resok.Obj)
			r.setAttr(x.Resok.Obj_attributes)
		}
	case OpMknod:
		x := api.NFSPROC3_MKNOD(nt.MKNOD3args{Where: nt.Diropargs3{Dir: fh3(op.H), Name: nt.Filename3(op.Name)}, What: nt.Mknoddata3{Ftype: nt.NF3FIFO}})
		r.Stat = uint32(x.Status)
	case OpRemove:
		x := api.NFSPROC3_REMOVE(nt.REMOVE3args{Object: nt.Diropargs3{Dir: fh3(op.H), Name: nt.Filename3(op.Name)}})
		r.Stat = uint32(x.Status)
	case OpRmdir:
		x := api.NFSPROC3_RMDIR(nt.RMDIR3args{Object: nt.Diropargs3{Dir: fh3(op.H), Name: nt.Filename3(op.Name)}})
		r.Stat = uint32(x.Status)
	case OpRename:
		x := api.NFSPROC3_RENAME(nt.RENAME3args{From: nt.Diropargs3{Dir: fh3(op.H), Name: nt.Filename3(op.Name)}, To: nt.Diropargs3{Dir: fh3(op.H2), Name: nt.Filename3(op.Name2)}})
		r.Stat = uint32(x.Status)
	case OpLink:
		x := api.NFSPROC3_LINK(nt.LINK3args{File: fh3(op.H), Link: nt.Diropargs3{Dir: fh3(op.H2), Name: nt.Filename3(op.Name)}})
		r.Stat = uint32(x.Status)
	case OpReaddir:
		x := api.NFSPROC3_READDIR(nt.READDIR3args{Dir: fh3(op.H), Cookie: nt.Cookie3(op.Cookie), Count: nt.Count3(op.Count)})
		r.Stat = uint32(x.Status)
		if x.Status == nt.NFS3_OK {
			for e := x.Resok.Reply.Entries; e != nil; e = e.Nextentry {
				r.Ents = append(r.Ents, Ent{Name: string(e.Name), Fileid: uint64(e.Fileid), Cookie: uint64(e.Cookie)})
			}
			r.Eof = x.Resok.Reply.Eof
		}
	case OpReaddirplus:
		x := api.NFSPROC3_READDIRPLUS(nt.READDIRPLUS3args{Dir: fh3(op.H), Cookie: nt.Cookie3(op.Cookie), Dircount: nt.Count3(op.Dircount), Maxcount: nt.Count3(op.Count)})
		r.Stat = uint32(x.Status)
		if x.Status == nt.NFS3_OK {
			for e := x.Resok.Reply.Entries; e != nil; e = e.Nextentry {
				en := Ent{Name: string(e.Name), Fileid: uint64(e.Fileid), Cookie: uint64(e.Cookie)}
				if e.Name_attributes.Attributes_follow {
					en.HasAttr = true
					en.Ftype = uint32(e.Name_attributes.Attributes.Ftype)
					en.Size = uint64(e.Name_attributes.Attributes.Size)
					en.AFileid = uint64(e.Name_attributes.Attributes.Fileid)
				}
				if e.Name_handle.Handle_follows {
					en.HasFH = true
					en.FH = append([]byte{}, e.Name_handle.Handle.Data...)
				}
				r.Ents = append(r.Ents, en)
			}
			r.Eof = x.Resok.Reply.Eof
		}
	case OpFsstat:
		x := api.NFSPROC3_FSSTAT(nt.FSSTAT3args{Fsroot: fh3(op.H)})
		r.Stat = uint32(x.Status)
	case OpFsinfo:
		x := api.NFSPROC3_FSINFO(nt.FSINFO3args{Fsroot: fh3(op.H)})
		r.Stat = uint32(x.Status)
		if x.Status == nt.NFS3_OK {
			r.Rtmax = uint32(x.Resok.Rtmax)
			r.Wtmax = uint32(x.Resok.Wtmax)
			r.Wtpref = uint32(x.Resok.Wtpref)
			r.Maxfilesize = uint64(x.Resok.Maxfilesize)
		}
	case OpPathconf:
		x := api.NFSPROC3_PATHCONF(nt.PATHCONF3args{Object: fh3(op.H)})
		r.Stat = uint32(x.Status)
		if x.Status == nt.NFS3_OK {
			r.NameMax = uint32(x.Resok.Name_max)
			r.NoTrunc = x.Resok.No_trunc
		}
	case OpCommit:
		x := api.NFSPROC3_COMMIT(nt.COMMIT3args{File: fh3(op.H), Offset: nt.Offset3(op.Off), Count: nt.Count3(op.Count)})
		r.Stat = uint32(x.Status)
		if x.Status == nt.NFS3_OK {
			r.Verf = x.Resok.Verf
		}
	default:
		panic(fmt.Sprintf("doOp: unknown op %d", op.K))
	}
	return r
}

// ---------------------------------------------------------------------------
// RPC transport adapter

type rpcStub struct {
	srv   *rfc1057.Server
	mu    sync.Mutex
	c     *rfc1057.Client
	mc    *rfc1057.Client
	conns []net.Conn
	err   error
	children []*rpcStub
}

// newRPCStub serves srv/msrv on an rfc1057.Server over in-process pipes and
// returns client stubs for the NFS and MOUNT programs.
func newRPCStub(srv API, msrv MountAPI) *rpcStub {
	s := rfc1057.MakeServer()
	s.RegisterMany(nt.MOUNT_PROGRAM_MOUNT_V3_regs(msrv))
	s.RegisterMany(nt.NFS_PROGRAM_NFS_V3_regs(srv))
	st := &rpcStub{srv: s}
	st.c = st.dial(nt.NFS_PROGRAM, nt.NFS_V3)
	st.mc = st.dial(nt.MOUNT_PROGRAM, nt.MOUNT_V3)
	return st
}

func (s *rpcStub) dial(prog, vers uint32) *rfc1057.Client {
	a, b := net.Pipe()
	s.mu.Lock()
	s.conns = append(s.conns, a, b)
	s.mu.Unlock()
	go s.srv.Run(b)
	return rfc1057.MakeClient(a, prog, vers)
}

// NewConn returns a stub with its own connection to the same server (an
// rfc1057 client connection carries one call at a time).
func (s *rpcStub) NewConn() *rpcStub {
	n := &rpcStub{srv: s.srv}
	n.c = n.dial(nt.NFS_PROGRAM, nt.NFS_V3)
	s.mu.Lock()
	s.children = append(s.children, n)
	s.mu.Unlock()
	return n
}

func (s *rpcStub) Close() {
	for _, c := range s.conns {
		c.Close()
	}
	for _, n := range s.children {
		n.Close()
	}
}

func (s *rpcStub) call(proc uint32, args, res xdr.Xdrable) {
	var cred rfc1057.Opaque_auth
	cred.Flavor = rfc1057.AUTH_NONE
	err := s.c.Call(proc, cred, cred, args, res)
	if err != nil {
		s.mu.Lock()
		if s.err == nil {
			s.err = fmt.Errorf("rpc proc %d: %v", proc, err)
		}
		s.mu.Unlock()
	}
}

func (s *rpcStub) Err() error {
	s.mu.Lock()
	defer s.mu.Unlock()
	e := s.err
	s.err = nil
	for _, n := range s.children {
		if ce := n.Err(); ce != nil && e == nil {
			e = ce
		}
	}
	return e
}

func (s *rpcStub) MountRoot() ([]byte, error) {
	var cred rfc1057.Opaque_auth
	cred.Flavor = rfc1057.AUTH_NONE
	arg := nt.Dirpath3("/")
	var res nt.Mountres3
	err := s.mc.Call(nt.MOUNTPROC3_MNT, cred, cred, &arg, &res)
	if err != nil {
		return nil, err
	}
	if res.Fhs_status != nt.MNT3_OK {
		return nil, fmt.Errorf("MNT status %d", res.Fhs_status)
	}
	return res.Mountinfo.Fhandle, nil
}

func (s *rpcStub) NFSPROC3_NULL() {
	var a, r xdr.Void
	s.call(nt.NFSPROC3_NULL, &a, &r)
}
func (s *rpcStub) NFSPROC3_GETATTR(a nt.GETATTR3args) (r nt.GETATTR3res) {
	r.Status = rpcFailed
	s.call(nt.NFSPROC3_GETATTR, &a, &r)
	return
}
func (s *rpcStub) NFSPROC3_SETATTR(a nt.SETATTR3args) (r nt.SETATTR3res) {
	r.Status = rpcFailed
	s.call(nt.NFSPROC3_SETATTR, &a, &r)
	return
}
func (s *rpcStub) NFSPROC3_LOOKUP(a nt.LOOKUP3args) (r nt.LOOKUP3res) {
	r.Status = rpcFailed
	s.call(nt.NFSPROC3_LOOKUP, &a, &r)
	return
}
func (s *rpcStub) NFSPROC3_ACCESS(a nt.ACCESS3args) (r nt.ACCESS3res) {
	r.Status = rpcFailed
	s.call(nt.NFSPROC3_ACCESS, &a, &r)
	return
}
func (s *rpcStub) NFSPROC3_READLINK(a nt.READLINK3args) (r nt.READLINK3res) {
	r.Status = rpcFailed
	s.call(nt.NFSPROC3_READLINK, &a, &r)
	return
}
func (s *rpcStub) NFSPROC3_READ(a nt.READ3args) (r nt.READ3res) {
	r.Status = rpcFailed
	s.call(nt.NFSPROC3_READ, &a, &r)
	return
}
func (s *rpcStub) NFSPROC3_WRITE(a nt.WRITE3args) (r nt.WRITE3res) {
	r.Status = rpcFailed
	s.call(nt.NFSPROC3_WRITE, &a, &r)
	return
}
func (s *rpcStub) NFSPROC3_CREATE(a nt.CREATE3args) (r nt.CREATE3res) {
	r.Status = rpcFailed
	s.call(nt.NFSPROC3_CREATE, &a, &r)
	return
}
func (s *rpcStub) NFSPROC3_MKDIR(a nt.MKDIR3args) (r nt.MKDIR3res) {
	r.Status = rpcFailed
	s.call(nt.NFSPROC3_MKDIR, &a, &r)
	return
}
func (s *rpcStub) NFSPROC3_SYMLINK(a nt.SYMLINK3args) (r nt.SYMLINK3res) {
	r.Status = rpcFailed
	s.call(nt.NFSPROC3_SYMLINK, &a, &r)
	return
}
func (s *rpcStub) NFSPROC3_MKNOD(a nt.MKNOD3args) (r nt.MKNOD3res) {
	r.Status = rpcFailed
	s.call(nt.NFSPROC3_MKNOD, &a, &r)
	return
}
func (s *rpcStub) NFSPROC3_REMOVE(a nt.REMOVE3args) (r nt.REMOVE3res) {
	r.Status = rpcFailed
	s.call(nt.NFSPROC3_REMOVE, &a, &r)
	return
}
func (s *rpcStub) NFSPROC3_RMDIR(a nt.RMDIR3args) (r nt.RMDIR3res) {
	r.Status = rpcFailed
	s.call(nt.NFSPROC3_RMDIR, &a, &r)
	return
}
func (s *rpcStub) NFSPROC3_RENAME(a nt.RENAME3args) (r nt.RENAME3res) {
	r.Status = rpcFailed
	s.call(nt.NFSPROC3_RENAME, &a, &r)
	return
}
func (s *rpcStub) NFSPROC3_LINK(a nt.LINK3args) (r nt.LINK3res) {
	r.Status = rpcFailed
	s.call(nt.NFSPROC3_LINK, &a, &r)
	return
}
func (s *rpcStub) NFSPROC3_READDIR(a nt.READDIR3args) (r nt.READDIR3res) {
	r.Status = rpcFailed
	s.call(nt.NFSPROC3_READDIR, &a, &r)
	return
}
func (s *rpcStub) NFSPROC3_READDIRPLUS(a nt.READDIRPLUS3args) (r nt.READDIRPLUS3res) {
	r.Status = rpcFailed
	s.call(nt.NFSPROC3_READDIRPLUS, &a, &r)
	return
}
func (s *rpcStub) NFSPROC3_FSSTAT(a nt.FSSTAT3args) (r nt.FSSTAT3res) {
	r.Status = rpcFailed
	s.call(nt.NFSPROC3_FSSTAT, &a, &r)
	return
}
func (s *rpcStub) NFSPROC3_FSINFO(a nt.FSINFO3args) (r nt.FSINFO3res) {
	r.Status = rpcFailed
	s.call(nt.NFSPROC3_FSINFO, &a, &r)
	return
}
func (s *rpcStub) NFSPROC3_PATHCONF(a nt.PATHCONF3args) (r nt.PATHCONF3res) {
	r.Status = rpcFailed
	s.call(nt.NFSPROC3_PATHCONF, &a, &r)
	return
}
func (s *rpcStub) NFSPROC3_COMMIT(a nt.COMMIT3args) (r nt.COMMIT3res) {
	r.Status = rpcFailed
	s.call(nt.NFSPROC3_COMMIT, &a, &r)
	return
}

// rpcFailed is the status left in a reply when the transport failed (no such
// NFS status exists); the caller checks rpcStub.Err().
const rpcFailed nt.Nfsstat3 = 0xFFFFFFF0

var rpcsOutstanding int64

// startWatchdog: a request that is outstanding while not a single disk or
// hook event happens for 60 s (normal requests take milliseconds and touch the
// disk constantly) violates the bounded-progress restatement of "every RPC
// returns"; the process dumps all stacks and exits with status 4 (the parent
// reports the death with the log tail).
func startWatchdog() {
	go func() {
		last := atomic.LoadUint64(&progressCtr)
		still := 0
		for {
			time.Sleep(5 * time.Second)
			cur := atomic.LoadUint64(&progressCtr)
			if atomic.LoadInt64(&rpcsOutstanding) > 0 && cur == last && !raceMode {
				still++
			} else {
				still = 0
			}
			last = cur
			if still >= 12 {
				fmt.Printf("panic: HANG: a request has been outstanding for 60 s without a single disk or lock event; lock monitor: %s\n%s\n", mustJSON(mon.Stats()), allStacks())
				os.Exit(4)
			}
		}
	}()
}
