package main

// Directed interleavings at the abort-and-relock windows (C03, C06, C08): one
// request (A) is parked by the verif hook at its n-th transaction abort - the
// instant between "abort because of lock order" and "lock again in order" -
// while a director runs an adversarial script of other requests (B), then A
// is released.  The resulting history is checked like any other concurrent
// history: linearizability against the reference (a dead handle must be
// answered STALE unless the request can be ordered before its death), fsck,
// lock monitor.

import (
	"strings"
	"fmt"
	"os"
	"sync"
	"time"

	"github.com/anishathalye/porcupine"
)

type WindowRes struct {
	Viol    []Violation
	Runs    int
	Parked  int
	// B requests that could not run inside the window because the parked
	// request holds a server-wide lock (cross-directory renames serialise)
	Serialized int
	Keys    map[string]bool
	Sample  []string
}

func runWindow(seed uint64, cas int, tier string, prop string) *WindowRes {
	res := &WindowRes{Keys: map[string]bool{}}
	type wcase struct {
		aop    func(w map[string][]byte) *Op
		aname  string
		script int
		gate   int
	}
	aops := []struct {
		name string
		f    func(w map[string][]byte) *Op
	}{
		{"LOOKUP d1/a", func(w map[string][]byte) *Op { return &Op{K: OpLookup, H: w["d1"], Name: "a"} }},
		{"REMOVE d1/a", func(w map[string][]byte) *Op { return &Op{K: OpRemove, H: w["d1"], Name: "a"} }},
		{"RENAME d1/a -> d2/b (existing)", func(w map[string][]byte) *Op { return &Op{K: OpRename, H: w["d1"], Name: "a", H2: w["d2"], Name2: "b"} }},
		{"RENAME d1/a -> d1/c2 (existing)", func(w map[string][]byte) *Op { return &Op{K: OpRename, H: w["d1"], Name: "a", H2: w["d1"], Name2: "c2"} }},
		{"LOOKUP d1/..", func(w map[string][]byte) *Op { return &Op{K: OpLookup, H: w["d1"], Name: ".."} }},
		{"RMDIR d2/low", func(w map[string][]byte) *Op { return &Op{K: OpRmdir, H: w["d2"], Name: "low"} }},
		{"RENAME d1/a -> d2/n (free name)", func(w map[string][]byte) *Op { return &Op{K: OpRename, H: w["d1"], Name: "a", H2: w["d2"], Name2: "n"} }},
		{"RENAME d2/low -> d1/low (directory to a free name)", func(w map[string][]byte) *Op { return &Op{K: OpRename, H: w["d2"], Name: "low", H2: w["d1"], Name2: "low"} }},
		// creations that are handed a half-freed inode number (the server was
		// stopped in the middle of a big free): they abort, finish the free and
		// lock their directory again
		{"HALF CREATE d1/nf", func(w map[string][]byte) *Op { return &Op{K: OpCreate, H: w["d1"], Name: "nf"} }},
		{"HALF MKDIR d1/nd", func(w map[string][]byte) *Op { return &Op{K: OpMkdir, H: w["d1"], Name: "nd"} }},
		{"HALF SYMLINK d2/nl", func(w map[string][]byte) *Op { return &Op{K: OpSymlink, H: w["d2"], Name: "nl", Target: "tt"} }},
	}
	nscripts := 14
	idx := 0
	for ai := range aops {
		for sc := 0; sc < nscripts; sc++ {
			for gate := 1; gate <= 2; gate++ {
				idx++
				if idx%4 != cas%4 && tier != "thorough" {
					continue
				}
				childLog("window A=%s script=%d gate=%d", aops[ai].name, sc, gate)
				oneWindow(seed, aops[ai].name, aops[ai].f, sc, gate, res, prop)
				if len(res.Viol) > 0 {
					return res
				}
			}
		}
	}
	return res
}

func oneWindow(seed uint64, aname string, aop func(map[string][]byte) *Op, script, gate int, res *WindowRes, prop string) {
	viol := func(class, f string, a ...interface{}) {
		if len(res.Viol) < 6 {
			res.Viol = append(res.Viol, Violation{Class: class, Msg: fmt.Sprintf("window [A = %s, script %d, parked at abort #%d]: ", aname, script, gate) + fmt.Sprintf(f, a...)})
		}
	}
	rng := NewRng(mix(seed, uint64(script*10+gate)))
	d := NewCDisk(12000)
	mon.Reset(0, true)
	deadlockHandler = func(msg string) {
		viol("deadlock", "%s", msg)
		emitAndExit(windowJobRes(res))
	}
	srv := StartSrv(d, SrvOpts{Unstable: true})
	lim, err := limitsOf(srv.API, srv.Root)
	if err != nil {
		viol("lin", "%v", err)
		return
	}
	sres := &SeqRes{Stats: Counter{}, States: map[string]bool{}, DeadProbes: Counter{}}
	s := &Sess{p: Profile{Name: "window"}, rng: rng, srv: srv, res: sres, inumSeen: map[uint64]int{}}
	s.m = NewModel(srv.Root, lim)
	s.names = namePool
	w := map[string][]byte{"root": srv.Root}
	mk := func(k OpKind, dir []byte, name, as string) {
		r := s.exec(&Op{K: k, H: dir, Name: name, Target: "t"})
		if r.Stat == stOK {
			w[as] = r.FH
		}
	}
	half := strings.HasPrefix(aname, "HALF")
	if half {
		// a big file with the smallest number; it is removed at the end of the
		// setup and the server is stopped before the background free has finished
		mk(OpCreate, srv.Root, "doomed", "doomed")
		for k := 0; k < 20 && w["doomed"] != nil; k++ {
			s.nextUid++
			s.exec(&Op{K: OpWrite, H: w["doomed"], Off: uint64(k) * 64 * BlockSize, Count: 64 * BlockSize, DataLen: 64 * BlockSize, Uid: s.nextUid, Stable: 0})
		}
	}
	// files first (small numbers), then directories
	mk(OpCreate, srv.Root, "a", "a")
	mk(OpCreate, srv.Root, "f2", "b")
	mk(OpCreate, srv.Root, "f3", "c2")
	mk(OpCreate, srv.Root, "spare", "spare")
	mk(OpMkdir, srv.Root, "d1", "d1")
	mk(OpMkdir, srv.Root, "d2", "d2")
	s.exec(&Op{K: OpRename, H: srv.Root, Name: "a", H2: w["d1"], Name2: "a"})
	s.exec(&Op{K: OpRename, H: srv.Root, Name: "f2", H2: w["d2"], Name2: "b"})
	s.exec(&Op{K: OpRename, H: srv.Root, Name: "f3", H2: w["d1"], Name2: "c2"})
	s.exec(&Op{K: OpRemove, H: srv.Root, Name: "spare"}) // frees a number below the directories
	s.nextUid++
	s.exec(&Op{K: OpWrite, H: w["a"], Count: 3000, DataLen: 3000, Uid: s.nextUid, Stable: 2})
	// a restart makes the allocator start from the lowest free number again:
	// the sub-directory gets the number freed above (below its parent's)
	s.restart()
	mk(OpMkdir, w["d2"], "low", "low")
	// and once more, so that a directory created inside the window reuses the
	// number of a directory removed inside the window
	if half {
		s.exec(&Op{K: OpRemove, H: srv.Root, Name: "doomed"})
		s.srv.Flush()
		s.srv.N.Crash() // the shrinker stops after its current transaction, then a clean shutdown
		s.srv = StartSrv(s.srv.D, s.srv.Opts)
	} else {
		s.restart()
	}
	srv = s.srv
	if len(sres.Viol) > 0 || w["d1"] == nil || w["d2"] == nil {
		viol("lin", "setup failed: %v", sres.Viol)
		return
	}
	init := s.m.Clone()
	// ---- the adversarial scripts -----------------------------------------
	var B []*Op
	root, d1, d2 := srv.Root, w["d1"], w["d2"]
	switch script {
	case 0:
	case 1: // the name is re-bound to a new object
		B = []*Op{{K: OpRename, H: d1, Name: "a", H2: d1, Name2: "z"}, {K: OpCreate, H: d1, Name: "a"}}
	case 2:
		B = []*Op{{K: OpRemove, H: d1, Name: "a"}}
	case 3: // the directory is replaced by a new one with the same number holding the same child under the same name
		B = []*Op{{K: OpRename, H: d1, Name: "a", H2: root, Name2: "t"}, {K: OpRename, H: d1, Name: "c2", H2: root, Name2: "t2"}, {K: OpRmdir, H: root, Name: "d1"}, {K: OpMkdir, H: root, Name: "e"}}
	case 4: // the target name is re-bound
		B = []*Op{{K: OpRemove, H: d2, Name: "b"}, {K: OpCreate, H: d2, Name: "b"}}
	case 5:
		B = []*Op{{K: OpRename, H: d1, Name: "a", H2: d2, Name2: "q"}, {K: OpCreate, H: d1, Name: "a"}}
	case 6:
		B = []*Op{{K: OpSetattr, H: w["a"], SetSize: true, Size: 10}, {K: OpWrite, H: w["a"], Off: 5, Count: 100, DataLen: 100, Uid: 777, Stable: 2}}
	case 7: // both names swap
		B = []*Op{{K: OpRename, H: d1, Name: "a", H2: d1, Name2: "tmp"}, {K: OpRename, H: d1, Name: "c2", H2: d1, Name2: "a"}, {K: OpRename, H: d1, Name: "tmp", H2: d1, Name2: "c2"}}
	case 9: // like 3, without any cross-directory rename (those serialise with a parked cross-directory RENAME)
		B = []*Op{{K: OpRemove, H: d1, Name: "a"}, {K: OpRemove, H: d1, Name: "c2"}, {K: OpRmdir, H: root, Name: "d1"}, {K: OpMkdir, H: root, Name: "e"}}
	case 10: // the free target name is taken
		B = []*Op{{K: OpCreate, H: d2, Name: "n"}, {K: OpMkdir, H: d1, Name: "low"}}
	case 11: // the free target name is taken and released again, the source is replaced
		B = []*Op{{K: OpCreate, H: d2, Name: "n"}, {K: OpRemove, H: d2, Name: "n"}, {K: OpRemove, H: d1, Name: "a"}, {K: OpCreate, H: d1, Name: "a"}}
	case 12: // the target directory is removed and its number handed out again
		B = []*Op{{K: OpRemove, H: d2, Name: "b"}, {K: OpRmdir, H: d2, Name: "low"}, {K: OpRmdir, H: root, Name: "d2"}, {K: OpMkdir, H: root, Name: "e2"}, {K: OpMkdir, H: root, Name: "e3"}, {K: OpMkdir, H: root, Name: "e4"}}
	case 13: // d1 is emptied and removed; its number is handed out again (third of the new directories)
		B = []*Op{{K: OpRemove, H: d1, Name: "a"}, {K: OpRemove, H: d1, Name: "c2"}, {K: OpRmdir, H: root, Name: "d1"}, {K: OpMkdir, H: root, Name: "e"}, {K: OpMkdir, H: root, Name: "e2"}, {K: OpMkdir, H: root, Name: "e3"}, {K: OpMkdir, H: root, Name: "e4"}}
	case 8: // the sub-directory is replaced
		B = []*Op{{K: OpRmdir, H: d2, Name: "low"}, {K: OpMkdir, H: d2, Name: "low"}}
	}
	res.Runs++
	res.Keys[fmt.Sprintf("%s/script%d/gate%d", aname, script, gate)] = true
	var hist []*histOp
	var hmu sync.Mutex
	A := aop(w)
	done := make(chan struct{})
	var hit chan struct{}
	armed := make(chan struct{})
	go func() {
		defer close(done)
		mon.SetClient(1)
		hit = mon.ArmGate(gate)
		close(armed)
		ho := &histOp{Client: 0, Op: A, Kind: "op"}
		ho.Call = tick()
		ho.Res = doOp(srv.API, A)
		ho.Ret = tick()
		hmu.Lock()
		hist = append(hist, ho)
		hmu.Unlock()
	}()
	<-armed
	parked := false
	select {
	case <-hit:
		parked = true
		res.Parked++
	case <-done:
	case <-time.After(30 * time.Second):
		viol("hang", "request A neither reached its abort nor returned within 30 s\n%s", allStacks())
		emitAndExit(windowJobRes(res))
	}
	// A B request runs in its own goroutine: if it makes no progress for a
	// while (the parked request holds a server-wide lock that B needs: two
	// cross-directory renames serialise) the window is closed early, A runs
	// to completion and B continues after it.  This only changes the
	// schedule; the verdict is the linearizability of whatever history results.
	gateOpen := false
	runB := func(op *Op) *Res {
		op.Materialize()
		ho := &histOp{Client: 1, Op: op, Kind: "op"}
		ch := make(chan struct{})
		go func() {
			mon.SetClient(2)
			ho.Call = tick()
			ho.Res = doOp(srv.API, op)
			ho.Ret = tick()
			close(ch)
		}()
		select {
		case <-ch:
		case <-time.After(400 * time.Millisecond):
			if !gateOpen && parked {
				gateOpen = true
				res.Serialized++
				mon.OpenGate()
			}
			<-ch // the watchdog covers a request that never returns
		}
		hmu.Lock()
		hist = append(hist, ho)
		hmu.Unlock()
		return ho.Res
	}
	for _, op := range B {
		r := runB(op)
		if (script == 3 || script == 9) && op.K == OpMkdir && r.Stat == stOK {
			// the new directory has just been created: put a child into it
			// under the old name
			if script == 3 {
				runB(&Op{K: OpRename, H: root, Name: "t", H2: r.FH, Name2: "a"})
			} else {
				runB(&Op{K: OpCreate, H: r.FH, Name: "a"})
			}
		}
	}
	mon.OpenGate()
	select {
	case <-done:
	case <-time.After(30 * time.Second):
		p0 := progressCtr
		time.Sleep(2 * time.Second)
		if p0 == progressCtr {
			viol("hang", "request A does not return after the window was closed (no disk or lock event for 2 s)\nlock monitor: %s\n%s", mustJSON(mon.Stats()), allStacks())
		} else {
			viol("hang", "request A still running 32 s after the window was closed")
		}
		emitAndExit(windowJobRes(res))
	}
	ls := mon.Stats()
	srv.WaitIdle()
	fr := srv.Fsck(FsckOpts{CheckCaches: true})
	if len(fr.Errs) > 0 {
		viol("fsck", "%s\nhistory:\n%s", joinLines(fr.Errs[:minInt(4, len(fr.Errs))]), renderHistory(hist))
	}
	if len(fr.Leaks) > 0 {
		viol("leak", "%s\nhistory:\n%s", joinLines(fr.Leaks[:minInt(4, len(fr.Leaks))]), renderHistory(hist))
	}
	if len(fr.CacheErrs) > 0 {
		viol("cache", "%s\nhistory:\n%s", joinLines(fr.CacheErrs[:minInt(4, len(fr.CacheErrs))]), renderHistory(hist))
	}
	got, werr := walkTree(srv.API, srv.Root, nil)
	if prop == "C13" {
		ms, _ := enumAfterHistory(srv.API, got)
		for _, m := range ms {
			res.Viol = append(res.Viol, Violation{Class: "enum", Msg: fmt.Sprintf("window [A = %s, script %d, parked at abort #%d]: %s\nhistory:\n%s", aname, script, gate, m, renderHistory(hist))})
		}
	}
	for _, m := range werr.Msgs {
		viol("lin", "final walk: %s", m)
	}
	t := tick()
	hist = append(hist, &histOp{Client: 2, Kind: "final", Dump: dumpString(got), Call: t, Ret: tick()})
	mon.Off()
	srv.Shutdown()
	if ls.Cycle != "" {
		viol("deadlock", "lock-order cycle (potential deadlock): %s", ls.Cycle)
	}
	ops := make([]porcupine.Operation, 0, len(hist))
	for _, ho := range hist {
		ops = append(ops, porcupine.Operation{ClientId: ho.Client, Input: ho, Call: ho.Call, Output: ho, Return: ho.Ret})
	}
	if r, _ := porcupine.CheckOperationsVerbose(concModel(init), ops, 30*time.Second); r == porcupine.Illegal {
		viol("lin", "history has no linearization (A was parked: %v):\n%s", parked, renderHistory(hist))
	}
	if os.Getenv("VERIF_DEBUG") != "" && script == 3 { fmt.Println("DEBUG", aname, gate, parked); fmt.Println(renderHistory(hist)) }
	if len(res.Sample) == 0 && parked {
		res.Sample = []string{renderHistory(hist)}
	}
}

func windowJobRes(r *WindowRes) *JobRes {
	out := &JobRes{Viol: r.Viol, Evals: r.Runs, Counters: Counter{"window_runs": r.Runs, "window_runs_where_A_was_parked_at_an_abort": r.Parked, "window_runs_closed_early(B needs a lock the parked request holds)": r.Serialized}, Distinct: sortedKeys(r.Keys)}
	if r.Parked == 0 {
		out.Distinct = nil
	}
	for _, x := range r.Sample {
		out.Samples = append(out.Samples, x)
	}
	return out
}
