package main

// Recording / crashing disk (DESIGN §2.1).
//
// CDisk implements the goose disk.Disk method set on a sparse in-memory
// image.  When recording, every Write/Barrier is appended to a trace under
// the same mutex that applies it; client adapters add CALL/RET markers to the
// same sequence (Mark), so the position of every disk event relative to every
// acknowledgement is exact.

import (
	"runtime"
	"time"
	"sync"
	"sync/atomic"
)

const BlockSize = 4096

const (
	EvWrite = iota
	EvBarrier
	EvCall
	EvRet
)

type DiskEv struct {
	Kind int
	Addr uint64 // block number for EvWrite; op index for EvCall/EvRet
	Data []byte // private copy for EvWrite
}

type CDisk struct {
	mu     sync.Mutex
	size   uint64
	blocks map[uint64][]byte // never mutated in place; missing = zero block
	rec    bool
	trace  []DiskEv
	// perturbation: seeded yields in disk calls (0 = off)
	perturb uint64
	rng     uint64
	// counters
	nwrite, nbarrier, nread uint64
	closed                  bool
	// read gate: the n-th read issued by goroutine gateG parks until the gate
	// is opened (directed interleavings at disk-access points)
	gateG          int64
	gateN, gateCnt int
	gateHit        chan struct{}
	gateGo         chan struct{}
	// installer hold: writes to blocks >= holdFrom (the home locations, i.e.
	// what the journal's installer writes) wait until released; committed data
	// then lives in the journal's memory log only
	holdFrom uint64
	holdCh   chan struct{}
}

// HoldHome makes every write to a block >= from wait until ReleaseHome.
func (d *CDisk) HoldHome(from uint64) {
	d.mu.Lock()
	if d.holdCh == nil {
		d.holdFrom = from
		ch := make(chan struct{})
		d.holdCh = ch
		// never for long: a full log makes every commit wait for the installer
		// (this only bounds the schedule, it decides nothing)
		time.AfterFunc(120*time.Millisecond, func() {
			d.mu.Lock()
			same := d.holdCh == ch
			d.mu.Unlock()
			if same {
				d.ReleaseHome()
			}
		})
	}
	d.mu.Unlock()
}

func (d *CDisk) ReleaseHome() {
	d.mu.Lock()
	ch := d.holdCh
	d.holdCh = nil
	d.holdFrom = 0
	d.mu.Unlock()
	if ch != nil {
		close(ch)
	}
}

// ArmReadGate arms the gate for the calling goroutine: its n-th disk read
// from now on parks.  The returned channel is closed when it parks.
func (d *CDisk) ArmReadGate(n int) chan struct{} {
	g := goid()
	d.mu.Lock()
	defer d.mu.Unlock()
	d.gateG, d.gateN, d.gateCnt = g, n, 0
	d.gateHit = make(chan struct{})
	d.gateGo = make(chan struct{})
	return d.gateHit
}

func (d *CDisk) OpenReadGate() {
	d.mu.Lock()
	g := d.gateGo
	d.gateGo = nil
	d.mu.Unlock()
	if g != nil {
		close(g)
	}
}

func (d *CDisk) readGate() {
	d.mu.Lock()
	if d.gateGo == nil {
		d.mu.Unlock()
		return
	}
	d.mu.Unlock()
	g := goid()
	d.mu.Lock()
	if d.gateGo == nil || g != d.gateG {
		d.mu.Unlock()
		return
	}
	d.gateCnt++
	if d.gateCnt != d.gateN {
		d.mu.Unlock()
		return
	}
	hit, wait := d.gateHit, d.gateGo
	d.mu.Unlock()
	close(hit)
	<-wait
}

var zeroBlock = make([]byte, BlockSize)

func NewCDisk(size uint64) *CDisk {
	return &CDisk{size: size, blocks: make(map[uint64][]byte)}
}

// NewCDiskFrom makes a disk whose initial contents are img (shared blocks,
// copy on write).
func NewCDiskFrom(size uint64, img map[uint64][]byte) *CDisk {
	m := make(map[uint64][]byte, len(img)+16)
	for k, v := range img {
		m[k] = v
	}
	return &CDisk{size: size, blocks: m}
}

func (d *CDisk) SetPerturb(seed uint64) {
	d.mu.Lock()
	d.perturb = seed
	d.rng = seed*0x9E3779B97F4A7C15 + 1
	d.mu.Unlock()
}

func (d *CDisk) maybeYield() {
	if d.perturb == 0 {
		return
	}
	d.mu.Lock()
	d.rng ^= d.rng << 13
	d.rng ^= d.rng >> 7
	d.rng ^= d.rng << 17
	r := d.rng
	d.mu.Unlock()
	switch r % 8 {
	case 0, 1:
		runtime.Gosched()
	case 2:
		for i := 0; i < int(r>>8%8)+1; i++ {
			runtime.Gosched()
		}
	}
}

func (d *CDisk) ReadTo(a uint64, b []byte) {
	d.readGate()
	d.maybeYield()
	d.mu.Lock()
	if a >= d.size {
		d.mu.Unlock()
		panic("cdisk: read out of bounds")
	}
	blk, ok := d.blocks[a]
	d.nread++
	d.mu.Unlock()
	if ok {
		copy(b, blk)
	} else {
		copy(b, zeroBlock)
	}
	progressTick()
}

func (d *CDisk) Read(a uint64) []byte {
	b := make([]byte, BlockSize)
	d.ReadTo(a, b)
	return b
}

func (d *CDisk) Write(a uint64, v []byte) {
	d.mu.Lock()
	hold := d.holdCh
	if hold != nil && a < d.holdFrom {
		hold = nil
	}
	d.mu.Unlock()
	if hold != nil {
		<-hold
	}
	d.maybeYield()
	if len(v) != BlockSize {
		panic("cdisk: write of non-block")
	}
	c := make([]byte, BlockSize)
	copy(c, v)
	d.mu.Lock()
	if a >= d.size {
		d.mu.Unlock()
		panic("cdisk: write out of bounds")
	}
	d.blocks[a] = c
	d.nwrite++
	if d.rec {
		d.trace = append(d.trace, DiskEv{Kind: EvWrite, Addr: a, Data: c})
	}
	d.mu.Unlock()
	progressTick()
}

func (d *CDisk) Size() uint64 { return d.size }

func (d *CDisk) Barrier() {
	d.maybeYield()
	d.mu.Lock()
	d.nbarrier++
	if d.rec {
		d.trace = append(d.trace, DiskEv{Kind: EvBarrier})
	}
	d.mu.Unlock()
	progressTick()
}

func (d *CDisk) Close() {
	d.mu.Lock()
	d.closed = true
	d.mu.Unlock()
}

// Mark inserts a CALL/RET marker into the trace and returns its position.
func (d *CDisk) Mark(kind int, op int) int {
	d.mu.Lock()
	defer d.mu.Unlock()
	if !d.rec {
		return -1
	}
	d.trace = append(d.trace, DiskEv{Kind: kind, Addr: uint64(op)})
	return len(d.trace) - 1
}

// StartRecording freezes the current image as the base of the trace.
func (d *CDisk) StartRecording() map[uint64][]byte {
	d.mu.Lock()
	defer d.mu.Unlock()
	d.rec = true
	d.trace = nil
	return d.snapshotLocked()
}

func (d *CDisk) StopRecording() []DiskEv {
	d.mu.Lock()
	defer d.mu.Unlock()
	d.rec = false
	t := d.trace
	d.trace = nil
	return t
}

func (d *CDisk) TraceLen() int {
	d.mu.Lock()
	defer d.mu.Unlock()
	return len(d.trace)
}

func (d *CDisk) snapshotLocked() map[uint64][]byte {
	m := make(map[uint64][]byte, len(d.blocks))
	for k, v := range d.blocks {
		m[k] = v
	}
	return m
}

// Snapshot returns a shallow copy of the image (blocks are immutable).
func (d *CDisk) Snapshot() map[uint64][]byte {
	d.mu.Lock()
	defer d.mu.Unlock()
	return d.snapshotLocked()
}

func (d *CDisk) Counters() (w, b, r uint64) {
	d.mu.Lock()
	defer d.mu.Unlock()
	return d.nwrite, d.nbarrier, d.nread
}

// global progress counter sampled by the watchdog
var progressCtr uint64

func progressTick() {
	if !raceMode {
		atomic.AddUint64(&progressCtr, 1)
	}
}

// ---------------------------------------------------------------------------
// Crash images from a trace

// CutIter walks a trace and materialises crash images.
type CutIter struct {
	size  uint64
	cur   map[uint64][]byte // all writes up to pos applied
	dur   map[uint64][]byte // writes up to the last barrier applied
	win   map[uint64][][]byte
	trace []DiskEv
	pos   int // number of events applied
	calls int // CALL markers seen
	rets  []int
}

func NewCutIter(size uint64, base map[uint64][]byte, trace []DiskEv) *CutIter {
	c := &CutIter{size: size, trace: trace}
	c.cur = make(map[uint64][]byte, len(base))
	c.dur = make(map[uint64][]byte, len(base))
	for k, v := range base {
		c.cur[k] = v
		c.dur[k] = v
	}
	c.win = make(map[uint64][][]byte)
	return c
}

// Step applies the next event; returns false at the end of the trace.
func (c *CutIter) Step() (DiskEv, bool) {
	if c.pos >= len(c.trace) {
		return DiskEv{}, false
	}
	e := c.trace[c.pos]
	c.pos++
	switch e.Kind {
	case EvWrite:
		c.cur[e.Addr] = e.Data
		c.win[e.Addr] = append(c.win[e.Addr], e.Data)
	case EvBarrier:
		for a := range c.win {
			c.dur[a] = c.cur[a]
		}
		c.win = make(map[uint64][][]byte)
	case EvCall:
		c.calls++
	case EvRet:
		c.rets = append(c.rets, int(e.Addr))
	}
	return e, true
}

// PrefixImage: every write issued so far is on the disk.
func (c *CutIter) PrefixImage() map[uint64][]byte {
	m := make(map[uint64][]byte, len(c.cur))
	for k, v := range c.cur {
		m[k] = v
	}
	return m
}

// WindowSize returns the number of blocks written since the last barrier.
func (c *CutIter) WindowSize() int { return len(c.win) }

// LossyImage: writes before the last barrier are durable; for each block
// written since, choose (by rng) the old value or any value written in the
// window (covers lost and reordered un-barriered writes).
func (c *CutIter) LossyImage(rng *Rng) (map[uint64][]byte, string) {
	m := make(map[uint64][]byte, len(c.dur)+len(c.win))
	for k, v := range c.dur {
		m[k] = v
	}
	desc := ""
	// deterministic order
	addrs := make([]uint64, 0, len(c.win))
	for a := range c.win {
		addrs = append(addrs, a)
	}
	sortU64(addrs)
	for _, a := range addrs {
		vs := c.win[a]
		k := rng.Intn(len(vs) + 1)
		if k > 0 {
			m[a] = vs[k-1]
		}
		desc += itoa(int(a)) + ":" + itoa(k) + "/" + itoa(len(vs)) + " "
	}
	return m, desc
}
