package main

// C06 census: a single-threaded sweep over every parent/child pair of trees
// in which children have both smaller and larger inode numbers than their
// directories, with the lock monitor recording which inode lock is requested
// while which are held.  A descending acquire anywhere closes a cycle with the
// ascending edge that LOOKUP(D, C) gives for the same pair.

import (
	"bytes"
	"fmt"
	"sort"
)

type CensusRes struct {
	Viol     []Violation
	Ops      int
	Stats    LockStats
	Classes  map[string]bool
	Pairs    int
	LowPairs int // pairs whose child number is below the directory's
	Sample   []string
}

func runCensus(seed uint64, cas int, tier string) *CensusRes {
	res := &CensusRes{Classes: map[string]bool{}}
	rng := NewRng(mix(seed, uint64(cas)+90001))
	d := NewCDisk(12000)
	mon.Reset(0, true)
	srv := StartSrv(d, SrvOpts{Unstable: true, RPC: cas%4 == 3})
	lim, err := limitsOf(srv.API, srv.Root)
	sres := &SeqRes{Stats: Counter{}, States: map[string]bool{}, DeadProbes: Counter{}}
	s := &Sess{p: Profile{Name: "C06"}, rng: rng, srv: srv, res: sres, inumSeen: map[uint64]int{}}
	viol := func(f string, a ...interface{}) {
		res.Viol = append(res.Viol, Violation{Class: "deadlock", Msg: fmt.Sprintf(f, a...)})
	}
	deadlockHandler = func(msg string) {
		viol("%s\nlast operations: %s", msg, joinLines(sres.OpLog[maxInt(0, len(sres.OpLog)-6):]))
		res.Stats = LockStats{}
		emitAndExit(censusJobRes(res))
	}
	if err != nil {
		viol("%v", err)
		return res
	}
	s.m = NewModel(srv.Root, lim)
	s.names = namePool
	root := srv.Root
	mk := func(k OpKind, dir []byte, name string) []byte {
		r := s.exec(&Op{K: k, H: dir, Name: name, Target: "t"})
		if r.Stat != stOK {
			return nil
		}
		return r.FH
	}
	// ---- build: files first (small numbers), then directories ------------
	nf := 4 + rng.Intn(3)
	for i := 0; i < nf; i++ {
		mk(OpCreate, root, fmt.Sprintf("f%d", i))
	}
	dA := mk(OpMkdir, root, "dA")
	dB := mk(OpMkdir, root, "dB")
	if dA == nil || dB == nil {
		viol("setup failed")
		return res
	}
	s.exec(&Op{K: OpRename, H: root, Name: "f0", H2: dA, Name2: "x"}) // child below its directory
	s.exec(&Op{K: OpRename, H: root, Name: "f1", H2: dB, Name2: "x"})
	mk(OpCreate, dA, "y") // child above its directory
	mk(OpCreate, dB, "y")
	mk(OpSymlink, dA, "l")
	sub := mk(OpMkdir, dA, "sub")
	if sub != nil {
		mk(OpCreate, sub, "deep")
	}
	// free two small numbers and let a restart make the allocator reuse them
	s.exec(&Op{K: OpRemove, H: root, Name: "f2"})
	s.exec(&Op{K: OpRemove, H: root, Name: "f3"})
	s.restart()
	low := mk(OpMkdir, dB, "low") // a sub-directory numbered below its parent
	if low != nil {
		mk(OpCreate, low, "in")
	}
	mk(OpCreate, dA, "z")
	sweep := func(phase string) {
		dirs := []*MObj{}
		for _, o := range s.m.LiveObjs() {
			if o.Kind == KDir && o.FH != nil {
				dirs = append(dirs, o)
			}
		}
		do := func(op *Op) {
			s.exec(op)
			res.Ops++
		}
		for _, D := range dirs {
			names := make([]string, 0, len(D.Ents))
			for n := range D.Ents {
				names = append(names, n)
			}
			sort.Strings(names)
			do(&Op{K: OpReaddir, H: D.FH, Count: 1 << 20})
			do(&Op{K: OpReaddirplus, H: D.FH, Count: 1 << 20, Dircount: 1 << 20})
			do(&Op{K: OpReaddirplus, H: D.FH, Count: 300, Dircount: 50})
			do(&Op{K: OpLookup, H: D.FH, Name: "."})
			do(&Op{K: OpLookup, H: D.FH, Name: ".."})
			// a transaction the journal refuses (too large) must give its locks back
			do(&Op{K: OpSymlink, H: D.FH, Name: "huge", Target: longName(520*BlockSize+1, 'H')})
			do(&Op{K: OpLookup, H: D.FH, Name: "huge"})
			for _, n := range names {
				C := s.m.Objs[D.Ents[n]]
				res.Pairs++
				if C.FH != nil && leU64(C.FH) < leU64(D.FH) {
					res.LowPairs++
				}
				do(&Op{K: OpLookup, H: D.FH, Name: n})
				if C.Kind == KDir && C.FH != nil {
					do(&Op{K: OpLookup, H: C.FH, Name: ".."})
					do(&Op{K: OpLookup, H: C.FH, Name: "."})
					do(&Op{K: OpReaddirplus, H: C.FH, Count: 1 << 20, Dircount: 1 << 20})
				}
				// create/remove next to it
				do(&Op{K: OpCreate, H: D.FH, Name: "tmp"})
				do(&Op{K: OpRemove, H: D.FH, Name: "tmp"})
				// rename within the directory, to a free name and back
				do(&Op{K: OpRename, H: D.FH, Name: n, H2: D.FH, Name2: n + "_r"})
				do(&Op{K: OpRename, H: D.FH, Name: n + "_r", H2: D.FH, Name2: n})
				// coinciding inodes
				do(&Op{K: OpRename, H: D.FH, Name: n, H2: D.FH, Name2: n})
				do(&Op{K: OpRename, H: D.FH, Name: n, H2: D.FH, Name2: "."})
				do(&Op{K: OpRename, H: D.FH, Name: n, H2: D.FH, Name2: ".."})
				do(&Op{K: OpRename, H: D.FH, Name: ".", H2: D.FH, Name2: n})
				do(&Op{K: OpRemove, H: D.FH, Name: "."})
				do(&Op{K: OpRmdir, H: D.FH, Name: ".."})
				// the same directory through a second (stale-generation) handle
				alias := append([]byte{}, D.FH...)
				alias[8] ^= 0x40
				do(&Op{K: OpRename, H: D.FH, Name: n, H2: alias, Name2: "q"})
				do(&Op{K: OpRename, H: alias, Name: n, H2: D.FH, Name2: "q"})
				do(&Op{K: OpRename, H: D.FH, Name: n, H2: alias, Name2: names[0]}) // onto an existing name
				do(&Op{K: OpRename, H: alias, Name: n, H2: D.FH, Name2: names[len(names)-1]})
				if C.Kind == KDir && (knownOpen("C04", "rename-dir-across-directories") || knownOpen("C04", "rename-dir-into-own-subtree")) {
					continue // directories stay where they are (open known finding)
				}
				// across directories, both directions, to free names and over
				// existing targets of the same kind (3- and 4-inode paths)
				for _, E := range dirs {
					if E.ID == D.ID {
						continue
					}
					do(&Op{K: OpRename, H: D.FH, Name: n, H2: E.FH, Name2: "moved"})
					do(&Op{K: OpRename, H: E.FH, Name: "moved", H2: D.FH, Name2: n})
					// over an existing target
					if C.Kind == KReg {
						do(&Op{K: OpCreate, H: E.FH, Name: "tgt"})
					} else if C.Kind == KDir {
						do(&Op{K: OpMkdir, H: E.FH, Name: "tgt"})
					} else {
						do(&Op{K: OpSymlink, H: E.FH, Name: "tgt", Target: "t"})
					}
					do(&Op{K: OpRename, H: D.FH, Name: n, H2: E.FH, Name2: "tgt"})
					do(&Op{K: OpRename, H: E.FH, Name: "tgt", H2: D.FH, Name2: n})
				}
				// over an existing target in the same directory
				if C.Kind == KReg {
					do(&Op{K: OpCreate, H: D.FH, Name: "tgt2"})
					do(&Op{K: OpRename, H: D.FH, Name: "tgt2", H2: D.FH, Name2: n})
					// n now denotes the object created as tgt2
				}
				if len(sres.Viol) > 0 {
					return
				}
			}
			// dead handles
			for _, dh := range s.m.DeadFHs() {
				if rng.Intn(4) == 0 {
					do(&Op{K: OpLookup, H: dh, Name: "x"})
					do(&Op{K: OpRename, H: D.FH, Name: "y", H2: dh, Name2: "y"})
					do(&Op{K: OpRename, H: dh, Name: "y", H2: D.FH, Name2: "y2"})
				}
			}
		}
		_ = phase
	}
	sweep("warm")
	if len(sres.Viol) == 0 {
		s.restart()
		sweep("cold")
	}
	if len(sres.Viol) == 0 && tier == "thorough" {
		s.restart()
		sweep("cold2")
	}
	res.Stats = mon.Stats()
	mon.Off()
	if res.Stats.Cycle != "" {
		viol("lock-order cycle (potential deadlock): %s", res.Stats.Cycle)
	}
	for k := range res.Stats.EdgeClasses {
		res.Classes[k] = true
	}
	if res.Stats.MaxRetry > 1000 {
		viol("an RPC went through %d begin/abort cycles without any commit", res.Stats.MaxRetry)
	}
	for _, v := range sres.Viol {
		res.Viol = append(res.Viol, v)
	}
	if len(sres.OpLog) > 10 {
		res.Sample = sres.OpLog[:10]
	}
	srv = s.srv
	srv.WaitIdle()
	srv.Shutdown()
	_ = bytes.Equal
	return res
}

func censusJobRes(r *CensusRes) *JobRes {
	out := &JobRes{Viol: r.Viol, Evals: r.Ops, Counters: Counter{}}
	out.Distinct = sortedKeys(r.Classes)
	out.Counters["lock_acquires"] = int(r.Stats.Acquires)
	out.Counters["acquires_while_holding"] = int(r.Stats.Multi)
	out.Counters["order_graph_edges"] = r.Stats.Edges
	out.Counters["parent_child_pairs"] = r.Pairs
	out.Counters["pairs_with_child_below_directory"] = r.LowPairs
	out.Counters["aborts(abort-and-relock paths)"] = int(r.Stats.Aborts)
	out.Counters["descending_acquires_seen"] = len(r.Stats.Descending)
	for k, v := range r.Stats.EdgeClasses {
		out.Counters["edge:"+k] += v
	}
	for k, v := range r.Stats.Sites {
		out.Counters["site:"+k] += v
	}
	out.Samples = []interface{}{map[string]interface{}{"engine": "census", "first_ops": r.Sample, "descending": r.Stats.Descending}}
	return out
}
