package main

import (
	"crypto/sha256"
	"encoding/hex"
	"encoding/json"
	"fmt"
	"os"
	"sort"
	"strconv"
	"strings"
)

// Rng is a small deterministic PRNG (splitmix64); every generator in the
// harness derives its choices from VERIF_SEED through it.
type Rng struct{ s uint64 }

func NewRng(seed uint64) *Rng { return &Rng{s: seed*0x9E3779B97F4A7C15 + 0x1234567} }

func (r *Rng) U64() uint64 {
	r.s += 0x9E3779B97F4A7C15
	z := r.s
	z = (z ^ (z >> 30)) * 0xBF58476D1CE4E5B9
	z = (z ^ (z >> 27)) * 0x94D049BB133111EB
	return z ^ (z >> 31)
}

func (r *Rng) Intn(n int) int {
	if n <= 0 {
		return 0
	}
	return int(r.U64() % uint64(n))
}

func (r *Rng) Chance(num, den int) bool { return r.Intn(den) < num }

func (r *Rng) Pick(xs []uint64) uint64 { return xs[r.Intn(len(xs))] }

func (r *Rng) PickS(xs []string) string { return xs[r.Intn(len(xs))] }

// Sub derives an independent generator.
func (r *Rng) Sub(tag uint64) *Rng { return NewRng(r.U64() ^ (tag * 0xD6E8FEB86659FD93)) }

func mix(a, b uint64) uint64 {
	r := NewRng(a ^ (b+0x51ED270B)*0x9E3779B97F4A7C15)
	return r.U64()
}

func sortU64(a []uint64) { sort.Slice(a, func(i, j int) bool { return a[i] < a[j] }) }

func itoa(i int) string { return strconv.Itoa(i) }

func hashBytes(b []byte) string {
	h := sha256.Sum256(b)
	return hex.EncodeToString(h[:8])
}

func hashStr(s string) string { return hashBytes([]byte(s)) }

func envInt(name string, def int64) int64 {
	v := os.Getenv(name)
	if v == "" {
		return def
	}
	n, err := strconv.ParseInt(v, 10, 64)
	if err != nil {
		return def
	}
	return n
}

func mustJSON(v interface{}) string {
	b, err := json.Marshal(v)
	if err != nil {
		return fmt.Sprintf("%q", err.Error())
	}
	return string(b)
}

func minU64(a, b uint64) uint64 {
	if a < b {
		return a
	}
	return b
}

func maxU64(a, b uint64) uint64 {
	if a > b {
		return a
	}
	return b
}

// shortName renders a possibly long/binary name for logs.
func shortName(s string) string {
	if len(s) > 24 {
		return fmt.Sprintf("%q..(%d)", s[:8], len(s))
	}
	return fmt.Sprintf("%q", s)
}

func joinLines(xs []string) string { return strings.Join(xs, "\n") }

// Counter is a string-keyed histogram that marshals deterministically.
type Counter map[string]int

func (c Counter) Add(k string) { c[k]++ }

func (c Counter) Merge(o Counter) {
	for k, v := range o {
		c[k] += v
	}
}
