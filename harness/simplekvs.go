package main

// C17 (SimpleNFS) and C18 (KVS): reference model differential, porcupine
// histories, crash-image enumeration.

import (
	"sync/atomic"
	"bytes"
	"fmt"
	"runtime"
	"sync"
	"time"

	"github.com/anishathalye/porcupine"
	"github.com/mit-pdos/go-journal/common"
	"github.com/mit-pdos/go-nfsd/kvs"
	nt "github.com/mit-pdos/go-nfsd/nfstypes"
	"github.com/mit-pdos/go-nfsd/simple"
)

// ---------------------------------------------------------------------------
// SimpleNFS reference: inodes 2..31, each a byte array of at most 4096 bytes

const simpleNInode = 32

type simpleModel struct {
	data [simpleNInode][]byte
}

func (m *simpleModel) clone() *simpleModel {
	n := &simpleModel{}
	for i := range m.data {
		n.data[i] = append([]byte(nil), m.data[i]...)
	}
	return n
}

func (m *simpleModel) key() string {
	var b bytes.Buffer
	for i := 2; i < simpleNInode; i++ {
		fmt.Fprintf(&b, "%d:%d:%s;", i, len(m.data[i]), hashBytes(m.data[i]))
	}
	return b.String()
}

type sOp struct {
	K       OpKind
	Inum    uint64
	FH      []byte
	Off     uint64
	Count   uint32
	Data    []byte
	Size    uint64
	SetSize bool
	Stable  int
	Name    string
}

func (o *sOp) String() string {
	return fmt.Sprintf("%s fh=%x off=%d count=%d datalen=%d size=%d/%v name=%q", o.K, o.FH, o.Off, o.Count, len(o.Data), o.Size, o.SetSize, o.Name)
}

func simpleFh(inum uint64, l int) []byte {
	b := make([]byte, 16)
	for i := 0; i < 8; i++ {
		b[i] = byte(inum >> (8 * uint(i)))
	}
	if l >= 0 && l < 16 {
		return b[:l]
	}
	return b
}

func simpleInumOf(fh []byte) (uint64, bool) {
	if len(fh) < 8 {
		return 0, false
	}
	return leU64(fh), true
}

func validSimpleInum(i uint64) bool { return i >= 2 && i < simpleNInode }

// apply checks reply r against the specification and advances the model.
func (m *simpleModel) apply(o *sOp, r *Res) string {
	inum, okfh := simpleInumOf(o.FH)
	valid := okfh && validSimpleInum(inum)
	switch o.K {
	case OpGetattr:
		if okfh && inum == 1 {
			if r.Stat != stOK || r.Ftype != KDir {
				return fmt.Sprintf("GETATTR of the root: status %d type %d", r.Stat, r.Ftype)
			}
			return ""
		}
		if !valid {
			if r.Stat == stOK {
				return "GETATTR of an invalid inode number succeeds"
			}
			return ""
		}
		if r.Stat != stOK || r.Size != uint64(len(m.data[inum])) || r.Ftype != KReg || r.Fileid != inum {
			return fmt.Sprintf("GETATTR: status %d size %d type %d fileid %d, want size %d", r.Stat, r.Size, r.Ftype, r.Fileid, len(m.data[inum]))
		}
	case OpRead:
		if !valid {
			if r.Stat == stOK {
				return "READ of an invalid inode number succeeds"
			}
			return ""
		}
		if r.Stat != stOK {
			return fmt.Sprintf("READ status %d", r.Stat)
		}
		sz := uint64(len(m.data[inum]))
		if o.Off >= sz {
			if len(r.Data) != 0 || !r.Eof {
				return fmt.Sprintf("READ at/after the end (size %d, off %d): %d bytes, eof=%v; want 0 bytes and eof", sz, o.Off, len(r.Data), r.Eof)
			}
			return ""
		}
		n := minU64(uint64(o.Count), sz-o.Off)
		want := m.data[inum][o.Off : o.Off+n]
		if !bytes.Equal(want, r.Data) || uint64(r.Count) != n {
			return fmt.Sprintf("READ off=%d count=%d (size %d): %d bytes %s, want %d bytes %s", o.Off, o.Count, sz, len(r.Data), hashBytes(r.Data), n, hashBytes(want))
		}
		if r.Eof != (o.Off+n >= sz) {
			return fmt.Sprintf("READ off=%d count=%d size=%d: eof=%v", o.Off, o.Count, sz, r.Eof)
		}
	case OpWrite:
		if !valid {
			if r.Stat == stOK {
				return "WRITE to an invalid inode number succeeds"
			}
			return ""
		}
		sz := uint64(len(m.data[inum]))
		legal := uint64(o.Count) == uint64(len(o.Data)) && o.Off+uint64(o.Count) >= o.Off && o.Off+uint64(o.Count) <= BlockSize && o.Off <= sz
		if !legal {
			if r.Stat == stOK {
				return fmt.Sprintf("WRITE off=%d count=%d datalen=%d on a file of size %d succeeds (holes, mismatched counts and anything beyond 4096 bytes must be rejected)", o.Off, o.Count, len(o.Data), sz)
			}
			return ""
		}
		if r.Stat != stOK || r.Count != o.Count {
			return fmt.Sprintf("WRITE off=%d count=%d on size %d: status %d count %d", o.Off, o.Count, sz, r.Stat, r.Count)
		}
		if r.Committed != 2 {
			return fmt.Sprintf("WRITE reports committed=%d, every write of this server is FILE_SYNC", r.Committed)
		}
		end := o.Off + uint64(o.Count)
		if end > sz {
			m.data[inum] = append(m.data[inum], make([]byte, end-sz)...)
		}
		copy(m.data[inum][o.Off:end], o.Data)
	case OpSetattr:
		if !valid {
			if r.Stat == stOK {
				return "SETATTR of an invalid inode number succeeds"
			}
			return ""
		}
		if !o.SetSize {
			if r.Stat != stOK {
				return fmt.Sprintf("SETATTR without size: status %d", r.Stat)
			}
			return ""
		}
		if o.Size > BlockSize {
			if r.Stat == stOK {
				return fmt.Sprintf("SETATTR size %d (> 4096) succeeds", o.Size)
			}
			return ""
		}
		if r.Stat != stOK {
			return fmt.Sprintf("SETATTR size %d: status %d", o.Size, r.Stat)
		}
		sz := uint64(len(m.data[inum]))
		if o.Size <= sz {
			m.data[inum] = m.data[inum][:o.Size]
		} else {
			m.data[inum] = append(m.data[inum], make([]byte, o.Size-sz)...)
		}
	case OpCommit:
		if !valid {
			if r.Stat == stOK {
				return "COMMIT of an invalid inode number succeeds"
			}
			return ""
		}
		if r.Stat != stOK {
			return fmt.Sprintf("COMMIT status %d", r.Stat)
		}
	case OpLookup:
		want := uint64(0)
		if o.Name == "a" {
			want = 2
		} else if o.Name == "b" {
			want = 3
		}
		if want == 0 {
			if r.Stat == stOK {
				return "LOOKUP of an unknown name succeeds"
			}
			return ""
		}
		if r.Stat != stOK || len(r.FH) < 8 || leU64(r.FH) != want {
			return fmt.Sprintf("LOOKUP %q: status %d handle %x", o.Name, r.Stat, r.FH)
		}
	}
	return ""
}

func doSimple(api API, o *sOp) *Res {
	op := &Op{K: o.K, H: o.FH, Off: o.Off, Count: o.Count, Data: o.Data, DataLen: uint32(len(o.Data)), Stable: o.Stable, SetSize: o.SetSize, Size: o.Size, Name: o.Name}
	if o.K == OpWrite && op.Data == nil {
		op.Data = []byte{}
	}
	return doOp(api, op)
}

func genSimpleOp(r *Rng, hot bool, uid *byte, sizeOf func(uint64) uint64) *sOp {
	o := &sOp{}
	inums := []uint64{2, 3, 2, 3, 4, 31, 30, 17}
	if !hot {
		inums = append(inums, 0, 1, 32, 33, 1<<32+2, ^uint64(0), 100)
	}
	o.Inum = r.Pick(inums)
	o.FH = simpleFh(o.Inum, 16)
	if !hot && r.Intn(25) == 0 {
		o.FH = simpleFh(o.Inum, r.Intn(9))
	}
	offs := []uint64{0, 0, 1, 100, 2048, 4095, 4096, 4097}
	cnts := []uint32{0, 1, 100, 2048, 4095, 4096, 4097}
	if hot {
		// requests the specification mostly accepts, piling up on few files
		offs = []uint64{0, 0, 50, 100, 2048, 3000}
		cnts = []uint32{1, 50, 100, 1000, 2048}
		inums = []uint64{2, 2, 3, 3, 31}
		o.Inum = r.Pick(inums)
		o.FH = simpleFh(o.Inum, 16)
	}
	if !hot {
		offs = append(offs, 8192, 1<<32, 1<<63, ^uint64(0), ^uint64(0)-4095)
		cnts = append(cnts, 8192, 1<<31, ^uint32(0))
	}
	switch x := r.Intn(100); {
	case x < 35:
		o.K = OpWrite
		o.Off = r.Pick(offs)
		o.Count = r.PickU32(cnts)
		if sizeOf != nil && r.Intn(2) == 0 {
			// a write the specification accepts: no hole, inside the block
			sz := sizeOf(o.Inum)
			o.Off = []uint64{0, sz, sz / 2}[r.Intn(3)]
			if o.Off < BlockSize {
				o.Count = uint32(1 + r.U64()%(BlockSize-o.Off))
			}
			if r.Intn(6) == 0 {
				o.Off, o.Count = 0, BlockSize // the whole file in one request
			}
		}
		n := o.Count
		if !hot && r.Intn(12) == 0 {
			n = r.PickU32([]uint32{0, 1, 4096, o.Count / 2, o.Count + 1})
		}
		if n > 10000 {
			n = 10000
		}
		*uid++
		if *uid == 0 {
			*uid = 1
		}
		o.Data = bytes.Repeat([]byte{*uid}, int(n))
		o.Stable = r.Intn(3)
	case x < 60:
		o.K = OpRead
		o.Off = r.Pick(offs)
		o.Count = r.PickU32(cnts)
	case x < 78:
		o.K = OpSetattr
		o.SetSize = r.Intn(6) != 0
		o.Size = r.Pick(append(offs, 50, 3000, 4096))
	case x < 90:
		o.K = OpGetattr
	case x < 95:
		o.K = OpCommit
	default:
		o.K = OpLookup
		o.FH = simpleFh(1, 16)
		o.Name = r.PickS([]string{"a", "b", "c", "", "A"})
	}
	return o
}

type SimpleRes struct {
	Viol      []Violation
	Ops       int
	Histories int
	Partitions int
	Images    int
	InFlight  int
	Keys      map[string]bool
	Sample    []string
}

func runSimple(seed uint64, cas int, tier string) *SimpleRes {
	res := &SimpleRes{Keys: map[string]bool{}}
	rng := NewRng(mix(seed, uint64(cas)+171717))
	viol := func(class, f string, a ...interface{}) {
		if len(res.Viol) < 10 {
			res.Viol = append(res.Viol, Violation{Class: class, Msg: fmt.Sprintf(f, a...)})
		}
	}
	// ---- 1. sequential differential + crash trace ----------------------
	d := NewCDisk(2000)
	srv := simple.MakeNfs(d)
	var api API = srv
	var stub *rpcStub
	if cas%3 == 1 {
		stub = newRPCStub(srv, srv)
		api = stub
	}
	m := &simpleModel{}
	base := d.StartRecording()
	var snaps []string
	snaps = append(snaps, m.key())
	var oplog []string
	uid := byte(0)
	nops := 200
	for i := 0; i < nops && len(res.Viol) == 0; i++ {
		o := genSimpleOp(rng, i%4 == 0, &uid, func(inum uint64) uint64 {
			if validSimpleInum(inum) {
				return uint64(len(m.data[inum]))
			}
			return 0
		})
		childLog("simple op %d %s", i, o)
		// the journal's installer is held back for stretches of ten requests:
		// committed data is then served from the memory log
		switch i % 40 {
		case 20:
			d.HoldHome(uint64(common.LOGSIZE))
		case 30:
			d.ReleaseHome()
		}
		d.Mark(EvCall, i)
		r := doSimple(api, o)
		d.Mark(EvRet, i)
		res.Ops++
		cls := "ok"
		if r.Stat != stOK {
			cls = "err"
		}
		res.Keys[fmt.Sprintf("%s/%s/%s", o.K, cls, simpleArgClass(o))] = true
		oplog = append(oplog, fmt.Sprintf("%s => %d", o, r.Stat))
		if msg := m.apply(o, r); msg != "" {
			viol("simple", "op %d %s: %s", i, o, msg)
		}
		snaps = append(snaps, m.key())
	}
	d.ReleaseHome()
	trace := d.StopRecording()
	if stub != nil {
		if err := stub.Err(); err != nil {
			viol("simple", "transport: %v", err)
		}
		stub.Close()
	}
	res.Sample = oplog[:minInt(8, len(oplog))]
	// crash images: every prefix cut + one lossy image per cut
	if len(res.Viol) == 0 {
		it := NewCutIter(2000, base, trace)
		lo, hi := 0, 0
		type ij struct {
			img    map[uint64][]byte
			lo, hi int
			desc   string
		}
		var jobs []ij
		for {
			e, ok := it.Step()
			if !ok {
				break
			}
			switch e.Kind {
			case EvCall:
				hi = int(e.Addr) + 1
			case EvRet:
				lo = int(e.Addr) + 1 // every acknowledged request is durable
				jobs = append(jobs, ij{it.PrefixImage(), lo, hi, fmt.Sprintf("cut %d right after the acknowledgement of request %d", it.pos, e.Addr)})
			case EvWrite:
				jobs = append(jobs, ij{it.PrefixImage(), lo, hi, fmt.Sprintf("prefix cut %d after write of block %d", it.pos, e.Addr)})
				if it.WindowSize() > 0 {
					img, desc := it.LossyImage(rng)
					jobs = append(jobs, ij{img, lo, hi, fmt.Sprintf("lossy cut %d (%s)", it.pos, desc)})
				}
			}
		}
		stride := 1
		if tier != "thorough" && len(jobs) > 400 {
			stride = len(jobs)/400 + 1
		}
		for k, j := range jobs {
			if k%stride != 0 || len(res.Viol) > 0 {
				continue
			}
			childLog("simple image %s", j.desc)
			key, err := recoverSimple(j.img, res.Images%2 == 1)
			res.Images++
			if j.lo < j.hi {
				res.InFlight++
			}
			if err != "" {
				viol("simple", "%s: %s", j.desc, err)
				continue
			}
			found := false
			for s := j.lo; s <= j.hi; s++ {
				if snaps[s] == key {
					found = true
				}
			}
			if !found {
				viol("simple", "%s: the recovered files equal no state between the last acknowledged request (%d) and the last issued one (%d); ops: %v", j.desc, j.lo, j.hi, oplog[maxInt(0, j.lo-1):minInt(len(oplog), j.hi)])
			}
		}
	}
	// ---- 1b. what a reply shows must survive a crash at that instant -----
	for v := 0; v < 8 && len(res.Viol) == 0; v++ {
		childLog("simple observation crash %d", v)
		simpleObsCrash(v, res, viol)
	}
	// ---- 2. concurrent histories, linearizable per inode ---------------
	nh := 80
	if tier == "thorough" {
		nh = 400
	}
	for h := 0; h < nh && len(res.Viol) == 0; h++ {
		childLog("simple history %d", h)
		runSimpleHistory(rng.Sub(uint64(h)), res, viol)
	}
	return res
}

// simpleObsCrash: while a modifying request is in flight (all disk writes are
// held back, so it cannot become durable) a second client reads the same file.
// If the read is answered, its reply is an observation: the state recovered
// from the disk as it is at that instant must show at least what the reply
// showed (a request's effect is either applied and durable, or invisible).
func simpleObsCrash(v int, res *SimpleRes, viol func(string, string, ...interface{})) {
	const size = 2000
	d := NewCDisk(size)
	srv := simple.MakeNfs(d)
	fh := simpleFh(uint64(2+v%3), 16)
	first := bytes.Repeat([]byte{0x11}, 10)
	if r := doSimple(srv, &sOp{K: OpWrite, FH: fh, Off: 0, Count: 10, Data: first, Stable: 2}); r.Stat != stOK {
		viol("simple", "setup WRITE fails: %d", r.Stat)
		return
	}
	base := d.StartRecording()
	d.HoldHome(0) // every write waits (released automatically after a moment)
	var mod *sOp
	if v%2 == 0 {
		mod = &sOp{K: OpWrite, FH: fh, Off: 10, Count: 90, Data: bytes.Repeat([]byte{0x22}, 90), Stable: 2}
	} else {
		mod = &sOp{K: OpSetattr, FH: fh, SetSize: true, Size: 300}
	}
	modDone := make(chan struct{})
	go func() { defer close(modDone); doSimple(srv, mod) }()
	time.Sleep(5 * time.Millisecond) // let it get into its commit
	var obs *Res
	retPos := -1
	obsDone := make(chan struct{})
	go func() {
		defer close(obsDone)
		if v%4 < 2 {
			obs = doSimple(srv, &sOp{K: OpGetattr, FH: fh})
		} else {
			obs = doSimple(srv, &sOp{K: OpRead, FH: fh, Off: 0, Count: 4096})
		}
		retPos = d.Mark(EvRet, 0)
	}()
	<-obsDone
	<-modDone
	d.ReleaseHome()
	trace := d.StopRecording()
	res.Ops += 3
	if obs.Stat != stOK {
		viol("simple", "read of file during a modification fails: %d", obs.Stat)
		return
	}
	seen := obs.Size
	if v%4 >= 2 {
		seen = uint64(len(obs.Data))
	}
	it := NewCutIter(size, base, trace)
	for it.pos <= retPos {
		if _, ok := it.Step(); !ok {
			break
		}
	}
	got, msg := recoverSimpleFile(it.PrefixImage(), fh)
	res.Images++
	if msg != "" {
		viol("crash", "observation crash: %s", msg)
		return
	}
	if got != seen && seen != 10 {
		viol("crash", "a %s answered while a %s of the same file was in flight showed size %d; the disk as it was at the instant of that reply recovers to size %d (the modification was visible before it was durable: after a crash the acknowledged observation is gone)", map[bool]string{true: "GETATTR", false: "READ"}[v%4 < 2], mod.K, seen, got)
	}
	res.Keys[fmt.Sprintf("observation-crash/%d/saw-new=%v", v%4, seen != 10)] = true
}

func recoverSimpleFile(img map[uint64][]byte, fh []byte) (size uint64, errmsg string) {
	defer func() {
		if e := recover(); e != nil {
			errmsg = fmt.Sprintf("panic while recovering: %v", e)
		}
	}()
	srv := simple.Recover(NewCDiskFrom(2000, img))
	ga := doSimple(srv, &sOp{K: OpGetattr, FH: fh})
	if ga.Stat != stOK {
		return 0, fmt.Sprintf("GETATTR after recovery: status %d", ga.Stat)
	}
	return ga.Size, ""
}

func simpleArgClass(o *sOp) string {
	c := ""
	if inum, ok := simpleInumOf(o.FH); !ok {
		c = "shortfh"
	} else if !validSimpleInum(inum) {
		c = "badinum"
	}
	switch {
	case o.Off > BlockSize:
		c += "+offbeyond"
	case o.Off == BlockSize:
		c += "+offend"
	}
	if uint64(o.Count) != uint64(len(o.Data)) && o.K == OpWrite {
		c += "+mismatch"
	}
	return c
}

// recoverSimple recovers an image with simple.Recover and reads all files.
// viaMakeNfs: restart through simple.MakeNfs (what cmd/simple-nfsd does on
// every start) instead of simple.Recover.
func recoverSimple(img map[uint64][]byte, viaMakeNfs bool) (key string, errmsg string) {
	defer func() {
		if e := recover(); e != nil {
			errmsg = fmt.Sprintf("panic while recovering/reading: %v", e)
		}
	}()
	d := NewCDiskFrom(2000, img)
	d.HoldHome(uint64(common.LOGSIZE)) // the recovered server must answer from its log
	defer d.ReleaseHome()
	var srv *simple.Nfs
	if viaMakeNfs {
		srv = simple.MakeNfs(d)
	} else {
		srv = simple.Recover(d)
	}
	m := &simpleModel{}
	for i := uint64(2); i < simpleNInode; i++ {
		ga := doSimple(srv, &sOp{K: OpGetattr, FH: simpleFh(i, 16)})
		if ga.Stat != stOK {
			return "", fmt.Sprintf("GETATTR inode %d after recovery: status %d", i, ga.Stat)
		}
		rd := doSimple(srv, &sOp{K: OpRead, FH: simpleFh(i, 16), Off: 0, Count: 4096})
		if rd.Stat != stOK || uint64(len(rd.Data)) != ga.Size || ga.Size > BlockSize {
			return "", fmt.Sprintf("inode %d after recovery: size %d, READ status %d returns %d bytes", i, ga.Size, rd.Stat, len(rd.Data))
		}
		m.data[i] = rd.Data
	}
	key = m.key()
	// continuation: the recovered server keeps serving correctly - three files
	// are rewritten (stable), every file is read back (the other 27 must be
	// untouched), and a second crash right after the last reply loses nothing
	exp := m.clone()
	for n, i := range []uint64{2, 3 + uint64(len(img))%28, simpleNInode - 1} {
		data := bytes.Repeat([]byte{byte(0xC1 + n)}, 100+1300*n)
		w := doSimple(srv, &sOp{K: OpWrite, FH: simpleFh(i, 16), Off: 0, Count: uint32(len(data)), Data: data, Stable: 2})
		if w.Stat != stOK || w.Count != uint32(len(data)) {
			return "", fmt.Sprintf("continuation after recovery: WRITE of %d bytes at 0 to inode %d: status %d count %d", len(data), i, w.Stat, w.Count)
		}
		if len(exp.data[i]) < len(data) {
			exp.data[i] = append(exp.data[i], make([]byte, len(data)-len(exp.data[i]))...)
		}
		copy(exp.data[i], data)
	}
	readAll := func(api API, when string) string {
		for i := uint64(2); i < simpleNInode; i++ {
			rd := doSimple(api, &sOp{K: OpRead, FH: simpleFh(i, 16), Off: 0, Count: 4096})
			if rd.Stat != stOK || !bytes.Equal(rd.Data, exp.data[i]) {
				return fmt.Sprintf("continuation after recovery (%s): inode %d reads %d bytes (hash %s), the reference has %d bytes (hash %s) - three other/these files were rewritten after the recovery", when, i, len(rd.Data), hashBytes(rd.Data), len(exp.data[i]), hashBytes(exp.data[i]))
			}
		}
		return ""
	}
	if e := readAll(srv, "same instance"); e != "" {
		return "", e
	}
	img2 := d.Snapshot()
	d2 := NewCDiskFrom(2000, img2)
	if e := readAll(simple.Recover(d2), "after a second crash right after the last reply"); e != "" {
		return "", e
	}
	return key, ""
}

type sHist struct {
	Op  *sOp
	Res *Res
}

func runSimpleHistory(rng *Rng, res *SimpleRes, viol func(string, string, ...interface{})) {
	d := NewCDisk(2000)
	d.SetPerturb(rng.U64() | 1)
	srv := simple.MakeNfs(d)
	init := &simpleModel{}
	// a little sequential prefix
	uid := byte(100)
	for i := 0; i < 4; i++ {
		o := genSimpleOp(rng, true, &uid, nil)
		r := doSimple(srv, o)
		if msg := init.apply(o, r); msg != "" {
			viol("simple", "history setup: %s: %s", o, msg)
			return
		}
	}
	var mu sync.Mutex
	var ops []porcupine.Operation
	var wg sync.WaitGroup
	clients := 3 + rng.Intn(2)
	for c := 0; c < clients; c++ {
		wg.Add(1)
		cr := rng.Sub(uint64(c) + 7)
		go func(c int, r *Rng) {
			defer wg.Done()
			u := byte(1 + c*50)
			for i := 0; i < 6; i++ {
				o := genSimpleOp(r, true, &u, nil)
				call := tick()
				rr := doSimple(srv, o)
				ret := tick()
				mu.Lock()
				ops = append(ops, porcupine.Operation{ClientId: c, Input: &sHist{o, rr}, Output: &sHist{o, rr}, Call: call, Return: ret})
				mu.Unlock()
			}
		}(c, cr)
	}
	wg.Wait()
	res.Histories++
	res.Ops += len(ops)
	model := porcupine.Model{
		Partition: func(history []porcupine.Operation) [][]porcupine.Operation {
			parts := map[string][]porcupine.Operation{}
			for _, o := range history {
				k := fmt.Sprintf("%x", o.Input.(*sHist).Op.FH)
				parts[k] = append(parts[k], o)
			}
			var out [][]porcupine.Operation
			for _, p := range parts {
				out = append(out, p)
			}
			return out
		},
		Init: func() interface{} { return init },
		Step: func(st, in, out interface{}) (bool, interface{}) {
			m := st.(*simpleModel).clone()
			h := in.(*sHist)
			if msg := m.apply(h.Op, h.Res); msg != "" {
				return false, st
			}
			return true, m
		},
		Equal: func(a, b interface{}) bool { return a.(*simpleModel).key() == b.(*simpleModel).key() },
		DescribeOperation: func(in, out interface{}) string {
			h := in.(*sHist)
			return fmt.Sprintf("%s => %d (%d bytes %s)", h.Op, h.Res.Stat, len(h.Res.Data), hashBytes(h.Res.Data))
		},
	}
	res.Partitions += len(model.Partition(ops))
	r, _ := porcupine.CheckOperationsVerbose(model, ops, 30*time.Second)
	if r == porcupine.Illegal {
		s := ""
		for _, o := range ops {
			s += fmt.Sprintf("[%d,%d] c%d %s\n", o.Call, o.Return, o.ClientId, model.DescribeOperation(o.Input, o.Output))
		}
		viol("simple", "concurrent history is not linearizable:\n%s", s)
	}
}

// ---------------------------------------------------------------------------
// KVS

type KvsRes struct {
	Viol      []Violation
	Ops       int
	Histories int
	Overlap   int
	Images    int
	InFlight  int
	Keys      map[string]bool
	Sample    []string
}

type kvState map[uint64]uint64 // key -> value id (0 = never written)

func (s kvState) clone() kvState {
	n := kvState{}
	for k, v := range s {
		n[k] = v
	}
	return n
}

func (s kvState) key(keys []uint64) string {
	out := ""
	for _, k := range keys {
		out += fmt.Sprintf("%d=%d;", k, s[k])
	}
	return out
}

func kvVal(id uint64) []byte {
	b := make([]byte, BlockSize)
	for i := 0; i < 8; i++ {
		b[i] = byte(id >> (8 * uint(i)))
	}
	for i := 8; i < BlockSize; i++ {
		b[i] = byte(id*31 + uint64(i))
	}
	return b
}

func kvID(b []byte) (uint64, bool) {
	if len(b) != BlockSize {
		return 0, false
	}
	if allZero(b) {
		return 0, true
	}
	id := leU64(b)
	return id, bytes.Equal(b, kvVal(id))
}

type kvOp struct {
	Put   bool
	Keys  []uint64
	IDs   []uint64
	Got   uint64
	GotOK bool
	Valid bool
	OK    bool
}

func runKvs(seed uint64, cas int, tier string) *KvsRes {
	res := &KvsRes{Keys: map[string]bool{}}
	rng := NewRng(mix(seed, uint64(cas)+181818))
	viol := func(f string, a ...interface{}) {
		if len(res.Viol) < 10 {
			res.Viol = append(res.Viol, Violation{Class: "kvs", Msg: fmt.Sprintf(f, a...)})
		}
	}
	const dsz = 1300
	sz := uint64(dsz)
	if cas%2 == 1 {
		sz = dsz - 50
	}
	first := uint64(common.LOGSIZE)
	keys := []uint64{first, first + 1, first + 2, sz - 1, sz - 2, first + 40}
	// keys of the big multi-puts: [bigLo, bigLo+n); a sample of them is observed
	bigLo := first + 100
	for _, off := range []uint64{0, 1, 100, 254, 255, 256, 257, 300, 400, 499} {
		keys = append(keys, bigLo+off)
	}
	// ---- sequential + crash --------------------------------------------
	d := NewCDisk(dsz)
	kv := kvs.MkKVS(d, sz)
	base := d.StartRecording()
	st := kvState{}
	snaps := []string{st.key(keys)}
	var oplog []string
	next := uint64(1)
	for i := 0; i < 60 && len(res.Viol) == 0; i++ {
		childLog("kvs op %d", i)
		// for ten operations out of twenty the journal's installer is held
		// back: what was put lives in the memory log only and gets are
		// answered from there
		switch i % 20 {
		case 10:
			d.HoldHome(uint64(common.LOGSIZE))
		case 0:
			d.ReleaseHome()
		}
		d.Mark(EvCall, i)
		if i%20 == 7 {
			// a multi-put of many keys (still one journal transaction)
			n := []int{257, 300, 400, 500, 511, 512, 513, 600}[rng.Intn(8)]
			var pairs []kvs.KVPair
			id := next
			next++
			for j := 0; j < n; j++ {
				pairs = append(pairs, kvs.KVPair{Key: bigLo + uint64(j), Val: kvVal(id)})
			}
			ok := kv.MultiPut(pairs)
			if !ok && n <= 511 {
				viol("MultiPut of %d pairs fails", n)
			}
			// a put that does not fit one journal operation may be refused, but
			// then it must have no effect; an answer of true means installed
			if ok {
				for _, k := range keys {
					if k >= bigLo && k < bigLo+uint64(n) {
						st[k] = id
					}
				}
			}
			for _, k := range keys {
				if p, gok := kv.Get(k); true {
					if gid, wf := kvID(p.Val); !gok || !wf || gid != st[k] {
						viol("after MultiPut of %d keys answered %v: Get(%d) returns id %d (well-formed %v), expected %d", n, ok, k, gid, wf, st[k])
						break
					}
				}
			}
			oplog = append(oplog, fmt.Sprintf("MultiPut of %d keys [%d,%d) id=%d", n, bigLo, bigLo+uint64(n), id))
			res.Keys[fmt.Sprintf("put/%d", n/100*100)] = true
		} else if i%20 == 13 {
			// one multi-put that names few keys many times: it is a sequence of
			// puts applied as one, so the last pair of a key is its latest put
			n := []int{6, 12, 13, 20, 40, 80}[rng.Intn(6)]
			var pairs []kvs.KVPair
			last := map[uint64]uint64{}
			for j := 0; j < n; j++ {
				k := keys[rng.Intn(4)]
				pairs = append(pairs, kvs.KVPair{Key: k, Val: kvVal(next)})
				last[k] = next
				next++
			}
			if !kv.MultiPut(pairs) {
				viol("MultiPut of %d pairs fails", len(pairs))
			}
			for k, id := range last {
				st[k] = id
			}
			for k := range last {
				p, gok := kv.Get(k)
				if gid, wf := kvID(p.Val); !gok || !wf || gid != st[k] {
					viol("after a MultiPut of %d pairs that names key %d several times Get returns id %d, the last pair of that key had id %d", n, k, gid, st[k])
					break
				}
			}
			oplog = append(oplog, fmt.Sprintf("MultiPut of %d pairs over 4 keys (repeated keys), last ids %v", n, last))
			res.Keys[fmt.Sprintf("put/repeated-keys/%d", n)] = true
		} else if rng.Intn(3) != 0 {
			n := 1 + rng.Intn(5)
			var pairs []kvs.KVPair
			used := map[uint64]bool{}
			var ks, ids []uint64
			for j := 0; j < n; j++ {
				k := keys[rng.Intn(len(keys))]
				if used[k] {
					continue
				}
				used[k] = true
				pairs = append(pairs, kvs.KVPair{Key: k, Val: kvVal(next)})
				ks = append(ks, k)
				ids = append(ids, next)
				next++
			}
			ok := kv.MultiPut(pairs)
			if !ok {
				viol("MultiPut of %d pairs fails", len(pairs))
			}
			for j, k := range ks {
				st[k] = ids[j]
			}
			oplog = append(oplog, fmt.Sprintf("MultiPut keys=%v ids=%v", ks, ids))
			res.Keys[fmt.Sprintf("put/%d", len(ks))] = true
		} else {
			k := keys[rng.Intn(len(keys))]
			p, ok := kv.Get(k)
			id, wf := kvID(p.Val)
			if !ok || !wf || id != st[k] || p.Key != k {
				viol("Get(%d) returns ok=%v id=%d wellformed=%v key=%d, the latest put was id %d", k, ok, id, wf, p.Key, st[k])
			}
			oplog = append(oplog, fmt.Sprintf("Get %d -> id %d", k, id))
			res.Keys[fmt.Sprintf("get/%v", st[k] != 0)] = true
		}
		d.Mark(EvRet, i)
		res.Ops++
		snaps = append(snaps, st.key(keys))
	}
	d.ReleaseHome()
	trace := d.StopRecording()
	kv.Delete()
	res.Sample = oplog[:minInt(6, len(oplog))]
	// boundaries of the key range: out-of-range keys must be refused (panic
	// by design), the last valid key must work
	for _, k := range []uint64{first - 1, sz, sz + 1, 0} {
		func() {
			defer func() {
				if recover() == nil {
					viol("key %d (valid range [%d,%d)) is accepted", k, first, sz)
				}
			}()
			d2 := NewCDisk(dsz)
			kv2 := kvs.MkKVS(d2, sz)
			defer kv2.Delete()
			if rng.Intn(2) == 0 {
				kv2.MultiPut([]kvs.KVPair{{Key: k, Val: kvVal(1)}})
			} else {
				kv2.Get(k)
			}
		}()
	}
	if len(res.Viol) == 0 {
		it := NewCutIter(dsz, base, trace)
		lo, hi := 0, 0
		for {
			e, ok := it.Step()
			if !ok || len(res.Viol) > 0 {
				break
			}
			switch e.Kind {
			case EvCall:
				hi = int(e.Addr) + 1
			case EvRet:
				lo = int(e.Addr) + 1
			}
			if e.Kind == EvRet || e.Kind == EvWrite {
				imgs := []map[uint64][]byte{it.PrefixImage()}
				descs := []string{fmt.Sprintf("prefix cut %d after write of block %d", it.pos, e.Addr)}
				if e.Kind == EvRet {
					descs[0] = fmt.Sprintf("cut %d right after the acknowledgement of operation %d", it.pos, e.Addr)
				}
				if e.Kind == EvWrite && it.WindowSize() > 0 {
					img, desc := it.LossyImage(rng)
					imgs = append(imgs, img)
					descs = append(descs, fmt.Sprintf("lossy cut %d (%s)", it.pos, desc))
				}
				for x, img := range imgs {
					childLog("kvs image %s", descs[x])
					got, err := recoverKvs(img, dsz, sz, keys)
					res.Images++
					if lo < hi {
						res.InFlight++
					}
					if err != "" {
						viol("%s: %s", descs[x], err)
						continue
					}
					found := false
					for s := lo; s <= hi; s++ {
						if snaps[s] == got {
							found = true
						}
					}
					if !found {
						viol("%s: recovered store %s equals no state between the last acknowledged operation (%d: %s) and the last issued one (%d: %s) - a multi-put must be all-or-nothing and durable once acknowledged; ops: %v", descs[x], got, lo, snaps[lo], hi, snaps[hi], oplog[maxInt(0, lo-1):minInt(len(oplog), hi)])
					}
				}
			}
		}
	}
	// ---- crash while other callers' puts are being refused -----------------
	for h := 0; h < 6 && len(res.Viol) == 0; h++ {
		childLog("kvs concurrent crash history %d", h)
		kvsConcCrash(rng.Sub(uint64(h)+900), res, viol)
	}
	// ---- concurrent histories ------------------------------------------
	nh := 40
	if tier == "thorough" {
		nh = 300
	}
	for h := 0; h < nh && len(res.Viol) == 0; h++ {
		childLog("kvs history %d", h)
		runKvsHistory(rng.Sub(uint64(h)+3), res, viol)
	}
	return res
}

// kvsConcCrash: one caller puts increasing ids into its own keys while two
// others issue multi-puts that are too large for one journal transaction (they
// are refused; go-journal then resets its saved flush position).  For every
// cut right after an acknowledgement of the first caller the recovered value
// of each of its keys must be at least the acknowledged one.
func kvsConcCrash(rng *Rng, res *KvsRes, viol func(string, ...interface{})) {
	const dsz = 3200
	d := NewCDisk(dsz)
	kv := kvs.MkKVS(d, dsz)
	first := uint64(common.LOGSIZE)
	keys := []uint64{first, first + 1, first + 2}
	d.SetPerturb(rng.U64() | 1)
	base := d.StartRecording()
	type ack struct {
		key, id uint64
		call, ret int
	}
	var acks []ack
	var wg sync.WaitGroup
	stop := make(chan struct{})
	val := kvVal(1000000)
	for b := 0; b < 3; b++ {
		wg.Add(1)
		go func(b int) {
			defer wg.Done()
			var pairs []kvs.KVPair
			for j := 0; j < 513; j++ {
				pairs = append(pairs, kvs.KVPair{Key: first + 600 + uint64(b*600+j), Val: val})
			}
			for {
				select {
				case <-stop:
					return
				default:
				}
				if kvPut(kv, pairs) {
					viol("a MultiPut of 520 pairs (more than one journal transaction holds) is answered true")
					return
				}
			}
		}(b)
	}
	for i := 0; i < 300; i++ {
		k := keys[i%len(keys)]
		id := uint64(i + 1)
		c := d.Mark(EvCall, i)
		ok := kv.MultiPut([]kvs.KVPair{{Key: k, Val: kvVal(id)}})
		r := d.Mark(EvRet, i)
		if !ok {
			viol("MultiPut of one pair fails")
			break
		}
		acks = append(acks, ack{k, id, c, r})
	}
	close(stop)
	wg.Wait()
	trace := d.StopRecording()
	kv.Delete()
	it := NewCutIter(dsz, base, trace)
	for {
		e, ok := it.Step()
		if !ok || len(res.Viol) > 0 {
			break
		}
		if e.Kind != EvRet {
			continue
		}
		cut := it.pos - 1
		got, err := recoverKvs(it.PrefixImage(), dsz, dsz, keys)
		res.Images++
		if err != "" {
			viol("concurrent refused puts, cut %d: %s", it.pos, err)
			continue
		}
		want := kvState{}
		maxc := kvState{}
		for _, a := range acks {
			if a.ret <= cut {
				want[a.key] = a.id
			}
			if a.call <= cut {
				maxc[a.key] = a.id
			}
		}
		okst := false
		for _, cand := range []kvState{want, maxc} {
			if cand.key(keys) == got {
				okst = true
			}
		}
		if !okst {
			viol("while other callers' oversized multi-puts were being refused: cut %d right after the acknowledgement of put #%d: recovered store %s, acknowledged %s (a put is durable once it returns)", it.pos, e.Addr, got, want.key(keys))
		}
	}
	res.Keys["crash/next-to-refused-puts"] = true
}

func recoverKvs(img map[uint64][]byte, dsz, sz uint64, keys []uint64) (state string, errmsg string) {
	defer func() {
		if e := recover(); e != nil {
			errmsg = fmt.Sprintf("panic while recovering/reading: %v", e)
		}
	}()
	d := NewCDiskFrom(dsz, img)
	// the installer is held back: the recovered store must answer from its log
	d.HoldHome(uint64(common.LOGSIZE))
	kv := kvs.MkKVS(d, sz)
	defer kv.Delete()
	defer d.ReleaseHome()
	st := kvState{}
	for _, k := range keys {
		p, ok := kv.Get(k)
		id, wf := kvID(p.Val)
		if !ok || !wf {
			return "", fmt.Sprintf("Get(%d) after recovery: ok=%v, value is not one that was ever put (first bytes %x)", k, ok, p.Val[:16])
		}
		st[k] = id
	}
	return st.key(keys), ""
}

func runKvsHistory(rng *Rng, res *KvsRes, viol func(string, ...interface{})) {
	const dsz = 700
	d := NewCDisk(dsz)
	d.SetPerturb(rng.U64() | 1)
	kv := kvs.MkKVS(d, dsz)
	defer kv.Delete()
	first := uint64(common.LOGSIZE)
	keys := []uint64{first, first + 1, first + 2, dsz - 1}
	var mu sync.Mutex
	var ops []porcupine.Operation
	var wg sync.WaitGroup
	clients := 3 + rng.Intn(2)
	var idctr uint64
	lastPut := make([]map[uint64]uint64, clients)
	for c := range lastPut {
		lastPut[c] = map[uint64]uint64{}
	}
	for c := 0; c < clients; c++ {
		wg.Add(1)
		cr := rng.Sub(uint64(c) + 11)
		go func(c int, r *Rng) {
			defer wg.Done()
			for i := 0; i < 5; i++ {
				o := &kvOp{}
				if r.Intn(5) < 3 {
					o.Put = true
					n := 1 + r.Intn(len(keys))
					perm := []int{0, 1, 2, 3}
					for a := range perm {
						b := r.Intn(len(perm))
						perm[a], perm[b] = perm[b], perm[a]
					}
					var pairs []kvs.KVPair
					for _, pi := range perm[:n] {
						mu.Lock()
						idctr++
						id := idctr
						if prev, ok := lastPut[c][keys[pi]]; ok && r.Intn(3) == 0 {
							id = prev // put again what this client put there before (possibly still the current value)
						}
						lastPut[c][keys[pi]] = id
						mu.Unlock()
						o.Keys = append(o.Keys, keys[pi])
						o.IDs = append(o.IDs, id)
						pairs = append(pairs, kvs.KVPair{Key: keys[pi], Val: kvVal(id)})
					}
					call := tick()
					o.OK = kvPut(kv, pairs)
					ret := tick()
					mu.Lock()
					ops = append(ops, porcupine.Operation{ClientId: c, Input: o, Output: o, Call: call, Return: ret})
					mu.Unlock()
				} else {
					o.Keys = []uint64{keys[r.Intn(len(keys))]}
					call := tick()
					p, ok := kvGet(kv, o.Keys[0])
					ret := tick()
					o.Got, o.Valid = kvID(p.Val)
					o.GotOK = ok
					mu.Lock()
					ops = append(ops, porcupine.Operation{ClientId: c, Input: o, Output: o, Call: call, Return: ret})
					mu.Unlock()
				}
				runtime.Gosched()
			}
		}(c, cr)
	}
	wg.Wait()
	res.Histories++
	res.Ops += len(ops)
	// overlapping concurrent multi-puts?
	for i := range ops {
		for j := range ops {
			a, b := ops[i].Input.(*kvOp), ops[j].Input.(*kvOp)
			if i < j && a.Put && b.Put && len(a.Keys) > 1 && len(b.Keys) > 1 && ops[i].Call < ops[j].Return && ops[j].Call < ops[i].Return {
				res.Overlap++
				i = len(ops)
				break
			}
		}
		if i >= len(ops) {
			break
		}
	}
	model := porcupine.Model{
		Init: func() interface{} { return kvState{} },
		Step: func(st, in, out interface{}) (bool, interface{}) {
			s := st.(kvState)
			o := in.(*kvOp)
			if o.Put {
				if !o.OK {
					return false, s
				}
				n := s.clone()
				for i, k := range o.Keys {
					n[k] = o.IDs[i]
				}
				return true, n
			}
			return o.GotOK && o.Valid && o.Got == s[o.Keys[0]], s
		},
		Equal: func(a, b interface{}) bool { return a.(kvState).key(keys) == b.(kvState).key(keys) },
		DescribeOperation: func(in, out interface{}) string {
			o := in.(*kvOp)
			if o.Put {
				return fmt.Sprintf("MultiPut keys=%v ids=%v ok=%v", o.Keys, o.IDs, o.OK)
			}
			return fmt.Sprintf("Get %d -> id %d (valid=%v ok=%v)", o.Keys[0], o.Got, o.Valid, o.GotOK)
		},
	}
	r, _ := porcupine.CheckOperationsVerbose(model, ops, 30*time.Second)
	if r == porcupine.Illegal {
		s := ""
		for _, o := range ops {
			s += fmt.Sprintf("[%d,%d] c%d %s\n", o.Call, o.Return, o.ClientId, model.DescribeOperation(o.Input, o.Output))
		}
		viol("concurrent history is not linearizable (a multi-put must appear atomic, a get returns the latest put):\n%s", s)
	}
}

var _ = nt.NFS3_OK


// kvPut/kvGet count as outstanding requests for the progress watchdog: a call
// that is outstanding for 60 s while not a single disk event happens will never
// return (the store has no timeouts) - "a get returns the value of the latest
// put" cannot hold for a get that never returns.
func kvPut(kv *kvs.KVS, pairs []kvs.KVPair) bool {
	atomic.AddInt64(&rpcsOutstanding, 1)
	defer atomic.AddInt64(&rpcsOutstanding, -1)
	return kv.MultiPut(pairs)
}

func kvGet(kv *kvs.KVS, k uint64) (*kvs.KVPair, bool) {
	atomic.AddInt64(&rpcsOutstanding, 1)
	defer atomic.AddInt64(&rpcsOutstanding, -1)
	return kv.Get(k)
}
