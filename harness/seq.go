package main

// Sequential differential engine: seeded, state-aware operation sequences
// driven through the real server and through the reference model in
// lock-step, with periodic whole-tree comparison, on-disk checks, restarts
// and server-vs-restarted-server comparison.  Shared by C02, C04, C05, C08,
// C09, C10, C12, C19 with different profiles.

import (
	"bytes"
	"fmt"
	"strings"

	"github.com/mit-pdos/go-journal/common"
)

type Profile struct {
	Name       string
	NOps       int
	DiskBlocks uint64
	W          map[OpKind]int
	PDead      int // % of handle positions filled with a dead/garbage handle
	PWrongKind int // % of handle positions filled with a live handle of another kind
	PBadName   int // % of name positions filled with an illegal/boundary name
	Big        bool // offsets/sizes up to the announced maximum (sparse files)
	Unstable   bool
	RPC        bool
	Timed      bool
	RestartEvery int
	WalkEvery  int
	FsckEvery  int  // fsck (C04/C05 + caches) every n ops (1 = after every op)
	TwinEvery  int  // C10: compare with a restarted/recovered twin every n ops
	AfterFail  bool // C09: full before/after comparison after every failing op
	NearFull   bool // fill the disk first; allocating ops may fail (model follows)
	ManyObjs   int  // pre-create this many objects (C10: more than the inode cache)
	Recycle    bool // C12: block-recycling bias (fill, delete, shrink, regrow)
	Sweep      bool // C12: free-space sweep at the end
	InodeChurn bool // C08: create/remove cycles to force inode reuse
	DeadProbe  bool // C08: present dead handles to every procedure/position
	ZeroScan   bool
	HotSet     int  // pick objects mostly from the n oldest of their kind (so that operations pile up on few objects)
	Own        []string // violation classes of the property being checked: only these (and a diverged reference) end a run
	InodeExhaust bool // fill the inode table first (thorough tier of C08/C09)
	DeleteAll  bool // C05: delete everything at the end; only the root may remain
	StallInstaller bool // the journal's installer is held back for stretches of a few requests (committed data is served from the memory log)
	JournalReject bool // now and then a request whose transaction the journal rejects as too large (needs > 521 free blocks)
	ManyBigFrees bool // C05: more big frees in flight at once than any plausible cap on background threads
	HighBlocks bool // first push the next-fit block allocator beyond block 32768 (second bitmap block); needs DiskBlocks > 34000
	DeadOnly   bool // bad handles are dead handles of this session only (other sessions share the server)
}

type Violation struct {
	Class string // reply | dump | handle | fsck | leak | cache | twin | afterfail | content | crash
	Msg   string
	Op    int
}

type SeqRes struct {
	Profile    string
	Seed       uint64
	Case       int
	Ops        int
	Viol       []Violation
	Stats      Counter // proc/outcome/class triples
	Walks      int
	Fscks      int
	Twins      int
	Restarts   int
	FailChecks int
	FailDirty  int // failing ops whose transaction had allocated/dirtied something
	States     map[string]bool
	NonTrivial bool
	OpLog      []string
	MaxFile    uint64
	Evictions  bool
	CachedIno  int
	CachedNames int
	DeadProbes Counter
	HandlesIssued int
	InodeReuse int
	BytesFreed uint64
	SweepBlocks int
	NoSpcFollowed int
	Sample     []string
}

type Sess struct {
	p     Profile
	rng   *Rng
	srv   *Srv
	m     *Model
	res   *SeqRes
	nextUid uint64
	step  int
	names []string
	inumSeen map[uint64]int
	stop  bool
	queue []*Op // scripted bursts (run before anything else is generated)
	steerFollow []byte // file whose last WRITE failed for lack of space
	enum  *enumChain // page-by-page enumeration in progress (consecutive requests only)
}

// enumChain: a READDIR/READDIRPLUS that did not reach end-of-directory is
// continued from the cookie of its last entry by the very next request(s);
// nothing else runs in between, so the pages together must list every entry
// of the reference directory exactly once.
type enumChain struct {
	h        []byte
	k        OpKind
	seen     map[string]int
	pages    int
	lastStep int
	next     uint64
}

func (s *Sess) followEnum(op *Op, res *Res) {
	if res.Stat != stOK {
		s.enum = nil
		return
	}
	o := s.m.Obj(op.H)
	if o == nil || o.Kind != KDir {
		s.enum = nil
		return
	}
	if len(res.Ents) == 0 && !res.Eof {
		s.viol("reply", "op %d %s: OK reply with no entry and without end-of-directory (a client that follows cookies makes no progress)", s.step, op)
		s.enum = nil
		return
	}
	if op.Cookie == 0 {
		s.enum = &enumChain{h: op.H, k: op.K, seen: map[string]int{}}
	} else if s.enum == nil || !bytes.Equal(s.enum.h, op.H) || s.enum.k != op.K || s.step != s.enum.lastStep+1 || op.Cookie != s.enum.next {
		s.enum = nil
		return
	}
	c := s.enum
	c.pages++
	c.lastStep = s.step
	for _, e := range res.Ents {
		c.seen[e.Name]++
		c.next = e.Cookie
	}
	if res.Eof {
		want := []string{".", ".."}
		for n := range o.Ents {
			want = append(want, n)
		}
		for _, n := range want {
			if c.seen[n] != 1 {
				s.viol("reply", "op %d %s: page-by-page enumeration (%d pages, nothing else in between) returned %s %d times; the reference directory has it once", s.step, op, c.pages, shortName(n), c.seen[n])
				break
			}
		}
		if len(c.seen) > len(want) {
			s.viol("reply", "op %d %s: page-by-page enumeration returned %d names, the reference directory has %d", s.step, op, len(c.seen), len(want))
		}
		s.enum = nil
		return
	}
	if c.pages > len(o.Ents)+6 {
		s.viol("reply", "op %d %s: enumeration of a directory of %d entries has not ended after %d pages", s.step, op, len(o.Ents)+2, c.pages)
		s.enum = nil
		return
	}
	// continue with the next request
	nx := &Op{K: op.K, H: op.H, Cookie: c.next, Count: op.Count, Dircount: op.Dircount}
	s.queue = append([]*Op{nx}, s.queue...)
}

var namePool = []string{"a", "b", "c", "f1", "f2", "g", "d0", "d1", "d2", "lnk", "x y", "ü"}

func longName(n int, c byte) string { return strings.Repeat(string(c), n) }

func (s *Sess) viol(class, f string, a ...interface{}) {
	if len(s.res.Viol) < 20 {
		s.res.Viol = append(s.res.Viol, Violation{Class: class, Msg: fmt.Sprintf(f, a...), Op: s.step})
	}
	switch class {
	case "content":
		// wrong bytes in a READ: the reference still describes names, sizes and
		// which blocks should exist; the conservation oracles of C05 (fsck,
		// allocators, delete-everything) do not depend on file contents
		if s.p.Name != "C05" {
			s.stop = true
		}
	case "reply", "dump", "handle", "afterfail", "twin":
		s.stop = true // the reference no longer describes the server
	default:
		if len(s.p.Own) == 0 || inClasses(s.p.Own, class) {
			s.stop = true
		}
	}
}

func (s *Sess) logOp(line string) {
	s.res.OpLog = append(s.res.OpLog, line)
	if len(s.res.OpLog) > 400 {
		s.res.OpLog = s.res.OpLog[len(s.res.OpLog)-300:]
	}
}

// ---------------------------------------------------------------------------
// generators

func (s *Sess) pickObj(kind int) *MObj {
	objs := s.m.LiveObjs()
	var c []*MObj
	for _, o := range objs {
		if (kind == 0 || o.Kind == kind) && o.FH != nil {
			c = append(c, o)
		}
	}
	if len(c) == 0 {
		return nil
	}
	if s.p.HotSet > 0 && len(c) > s.p.HotSet && s.rng.Intn(3) != 0 {
		c = c[:s.p.HotSet]
	}
	return c[s.rng.Intn(len(c))]
}

func (s *Sess) garbageHandle() []byte {
	r := s.rng
	for try := 0; try < 20; try++ {
		var h []byte
		switch r.Intn(7) {
		case 0:
			h = []byte{}
		case 1:
			h = make([]byte, r.Intn(16))
		case 2:
			h = make([]byte, 17+r.Intn(47))
		case 3: // valid length, huge inum
			h = make([]byte, 16)
			for i := range h {
				h[i] = byte(r.U64())
			}
		case 4: // live inum, wrong generation
			o := s.pickObj(0)
			if o == nil {
				continue
			}
			h = append([]byte{}, o.FH...)
			h[8] += byte(1 + r.Intn(5))
		case 5: // inum 0 / small inum, any gen
			h = make([]byte, 16)
			h[0] = byte(r.Intn(40))
			h[8] = byte(r.Intn(4))
		case 6: // inum at the end of the table
			h = make([]byte, 16)
			v := uint64(32768 - 2 + r.Intn(4))
			h[0], h[1], h[2] = byte(v), byte(v>>8), byte(v>>16)
			h[8] = byte(r.Intn(3))
		}
		for i := range h {
			if r.Intn(9) == 0 && len(h) != 16 {
				h[i] = byte(r.U64())
			}
		}
		if !s.m.Known(h) {
			return h
		}
	}
	return []byte{0xde, 0xad}
}

// handleFor picks a handle for a position that wants an object of kind
// (0 = any).
func (s *Sess) handleFor(kind int) []byte {
	r := s.rng
	if r.Intn(100) < s.p.PDead {
		dead := s.m.DeadFHs()
		if len(dead) > 0 && (s.p.DeadOnly || r.Intn(3) != 0) {
			return dead[r.Intn(len(dead))]
		}
		if !s.p.DeadOnly {
			return s.garbageHandle()
		}
	}
	if r.Intn(100) < s.p.PWrongKind {
		if o := s.pickObj(0); o != nil {
			return o.FH
		}
	}
	if o := s.pickObj(kind); o != nil {
		return o.FH
	}
	return s.srv.Root
}

func (s *Sess) dirHandle() []byte {
	// bias towards the root and a few directories so that names collide
	if s.rng.Intn(3) == 0 {
		return s.srv.Root
	}
	return s.handleFor(KDir)
}

func (s *Sess) name() string {
	r := s.rng
	if r.Intn(100) < s.p.PBadName {
		nm := s.m.Lim.NameMax
		switch r.Intn(10) {
		case 0:
			return ""
		case 1:
			return "."
		case 2:
			return ".."
		case 3:
			return longName(nm-1, 'p')
		case 4:
			return longName(nm, 'q')
		case 5:
			return longName(nm+1, 'r')
		case 6:
			return longName(255, 's')
		case 7:
			return longName(256+r.Intn(100), 't')
		case 8:
			return "a/b"
		case 9:
			return "nul\x00byte"
		}
	}
	return s.names[r.Intn(len(s.names))]
}

// existingName returns a name that exists in directory d (or a pool name).
func (s *Sess) existingName(dfh []byte) string {
	d := s.m.Obj(dfh)
	if d != nil && d.Kind == KDir && len(d.Ents) > 0 && s.rng.Intn(5) != 0 {
		names := make([]string, 0, len(d.Ents))
		for n := range d.Ents {
			names = append(names, n)
		}
		sortStrings(names)
		return names[s.rng.Intn(len(names))]
	}
	return s.name()
}

func (s *Sess) offsets() []uint64 {
	b := uint64(BlockSize)
	o := []uint64{0, 0, 1, 100, b - 1, b, b + 1, 3 * b, 5*b + 17, 8*b - 1, 8 * b, 8*b + 1, 9 * b, 20 * b}
	if s.p.Big {
		mx := s.m.Lim.MaxFileSize
		o = append(o, (8+512)*b-1, (8+512)*b, (8+512)*b+1, (8+512)*b+b, (8+512+512)*b, (8+512+513)*b+5,
			mx-b, mx-b-1, mx-1, mx, mx+1, 1<<32, 1<<32+1, 1<<63, ^uint64(0), ^uint64(0)-10)
	}
	return o
}

func (s *Sess) writeLens() []uint32 {
	l := []uint32{1, 1, 7, 100, 1000, BlockSize - 1, BlockSize, BlockSize + 1, 2 * BlockSize, 5000, 20000, 65536}
	if s.p.Big {
		w := uint32(s.m.Lim.WtMax)
		l = append(l, w-1, w, w+1, 2*w)
	}
	return l
}

func (s *Sess) genOp() *Op {
	r := s.rng
	// weighted choice
	tot := 0
	for _, w := range s.p.W {
		tot += w
	}
	x := r.Intn(tot)
	var k OpKind
	for kk := OpKind(0); kk < NumOpKinds; kk++ {
		w := s.p.W[kk]
		if x < w {
			k = kk
			break
		}
		x -= w
	}
	op := &Op{K: k}
	switch k {
	case OpGetattr, OpAccess, OpFsinfo, OpPathconf, OpFsstat:
		op.H = s.handleFor(0)
	case OpSetattr:
		op.H = s.handleFor(KReg)
		if r.Intn(4) != 0 {
			op.SetSize = true
			o := s.m.Obj(op.H)
			switch {
			case o != nil && r.Intn(3) == 0 && o.Size > 0: // shrink to an arbitrary (mostly unaligned) size
				op.Size = r.U64() % (o.Size + 1)
			case o != nil && r.Intn(3) == 0: // grow a little
				op.Size = o.Size + uint64(r.Intn(3*BlockSize))
			default:
				op.Size = r.Pick(s.offsets())
			}
			if !s.p.Big && op.Size > 600*BlockSize {
				op.Size %= 600 * BlockSize
			}
		}
		if r.Intn(3) == 0 {
			op.SetAtime = r.Intn(3)
			op.Atime = [2]uint32{uint32(r.U64()), uint32(r.Intn(1000000000))}
		}
		op.Guard = r.Intn(10) == 0
		if r.Intn(3) == 0 {
			op.SetMtime = r.Intn(3)
			op.Mtime = [2]uint32{uint32(r.U64()), uint32(r.Intn(1000000000))}
		}
		if r.Intn(4) == 0 {
			// permission bits and owner: this server may ignore them, but what it
			// reports afterwards must not change with a restart
			op.SetPerm = true
			op.Perm = r.PickU32([]uint32{0, 0, 0644, 0600, 0755, 0777, 04755, 07777, 1})
			if r.Intn(2) == 0 {
				op.SetIDs = true
				op.UidV, op.GidV = r.PickU32([]uint32{0, 1000, ^uint32(0)}), r.PickU32([]uint32{0, 100, 65534})
			}
		}
	case OpLookup:
		op.H = s.dirHandle()
		if r.Intn(8) == 0 {
			op.Name = r.PickS([]string{".", ".."})
		} else {
			op.Name = s.existingName(op.H)
		}
	case OpReadlink:
		op.H = s.handleFor(KLnk)
	case OpRead:
		op.H = s.handleFor(KReg)
		o := s.m.Obj(op.H)
		if o != nil && o.Size > 0 && r.Intn(3) != 0 {
			op.Off = r.U64() % (o.Size + 2)
		} else {
			op.Off = r.Pick(s.offsets())
		}
		op.Count = r.PickU32([]uint32{0, 1, 100, BlockSize, BlockSize + 1, 3 * BlockSize, 65536, 65537, 200000})
	case OpWrite:
		op.H = s.handleFor(KReg)
		o := s.m.Obj(op.H)
		switch {
		case o != nil && r.Intn(2) == 0: // append or overwrite inside
			op.Off = r.U64() % (o.Size + 1)
			if r.Intn(2) == 0 {
				op.Off = o.Size
			}
		default:
			op.Off = r.Pick(s.offsets())
			if !s.p.Big && op.Off > 600*BlockSize {
				op.Off %= 600 * BlockSize
			}
		}
		op.Count = r.PickU32(s.writeLens())
		op.DataLen = op.Count
		if s.p.PBadName > 0 && r.Intn(40) == 0 { // count and data disagree
			if r.Intn(2) == 0 && op.Count > 0 {
				op.DataLen = op.Count - 1 - uint32(r.Intn(int(op.Count)))
			} else {
				op.DataLen = op.Count + 1 + uint32(r.Intn(100))
			}
		}
		s.nextUid++
		op.Uid = s.nextUid
		op.Stable = r.Intn(3)
	case OpCreate:
		op.H = s.dirHandle()
		op.Name = s.name()
		op.Mode = r.PickInt([]int{0, 0, 0, 1, 1, 2})
		if r.Intn(8) == 0 {
			op.SetSize = true
			op.Size = r.Pick(s.offsets())
		}
		s.initialAttrs(op)
	case OpMkdir, OpMknod:
		op.H = s.dirHandle()
		op.Name = s.name()
		s.initialAttrs(op)
	case OpSymlink:
		op.H = s.dirHandle()
		op.Name = s.name()
		op.Target = r.PickS([]string{"", "t", "/some/where", longName(200, 'L'), longName(1000, 'M'), "rel/../path", longName(4096, 'B'), longName(4097+r.Intn(9000), 'N')})
		s.initialAttrs(op)
		if s.srv.N == nil {
		} else if st := s.srv.N.VerifFsState(); st.Balloc.NumFree() < 6 && r.Intn(2) == 0 {
			// the disk is nearly full: a target that needs one block more than
			// there is (the request must fail as a whole)
			op.Target = longName(int(st.Balloc.NumFree())*BlockSize+1+r.Intn(3000), 'E')
		}
	case OpRemove, OpRmdir:
		op.H = s.dirHandle()
		if r.Intn(15) == 0 {
			op.Name = r.PickS([]string{".", ".."})
		} else {
			op.Name = s.existingName(op.H)
		}
	case OpRename:
		op.H = s.dirHandle()
		op.Name = s.existingName(op.H)
		if r.Intn(2) == 0 {
			op.H2 = op.H
		} else {
			op.H2 = s.dirHandle()
		}
		if r.Intn(3) == 0 {
			op.Name2 = s.existingName(op.H2)
		} else {
			op.Name2 = s.name()
		}
		if r.Intn(10) == 0 {
			// '.'/'..' as the new name, preferably of an empty directory and
			// with a directory as the source (then source and "target" have
			// the same kind and the target is empty)
			op.Name2 = r.PickS([]string{".", ".", ".."})
			for _, o := range s.m.LiveObjs() {
				if o.Kind == KDir && len(o.Ents) == 0 && o.FH != nil && r.Intn(2) == 0 {
					op.H2 = o.FH
				}
			}
			if d := s.m.Obj(op.H); d != nil && d.Kind == KDir {
				for n, id := range d.Ents {
					if s.m.Objs[id].Kind == KDir && s.m.Objs[id].FH != nil && string(s.m.Objs[id].FH) != string(op.H2) {
						op.Name = n
					}
				}
			}
		}
		if r.Intn(5) == 0 {
			// a directory moves to another parent (any other directory, its own
			// descendants included); sometimes over an existing empty directory
			var dirs []*MObj
			for _, o := range s.m.LiveObjs() {
				if o.Kind == KDir && o.FH != nil {
					dirs = append(dirs, o)
				}
			}
			if len(dirs) >= 3 {
				src := dirs[1+r.Intn(len(dirs)-1)]
				par := s.m.Objs[src.Parent]
				dst := dirs[r.Intn(len(dirs))]
				if par != nil && par.FH != nil && par.Live {
					for n, id := range par.Ents {
						if id == src.ID {
							op.H, op.Name, op.H2 = par.FH, n, dst.FH
							op.Name2 = s.name()
							if r.Intn(3) == 0 {
								op.Name2 = s.existingName(op.H2)
							}
						}
					}
				}
			}
		}
		s.avoidKnownRename(op)
	case OpLink:
		op.H = s.handleFor(KReg)
		op.H2 = s.dirHandle()
		op.Name = s.name()
	case OpReaddir, OpReaddirplus:
		op.H = s.handleFor(KDir)
		op.Cookie = 0
		op.Count = r.PickU32([]uint32{0, 1, 64, 200, 300, 400, 512, 1000, 4096, 1 << 20, ^uint32(0)})
		op.Dircount = r.PickU32([]uint32{0, 1, 64, 100, 200, 512, 4096, ^uint32(0)})
	case OpCommit:
		op.H = s.handleFor(KReg)
		o := s.m.Obj(op.H)
		if o != nil && r.Intn(4) != 0 {
			op.Off = 0
			op.Count = uint32(minU64(o.Size, 1<<31))
		} else {
			op.Off = r.Pick(s.offsets())
			op.Count = uint32(r.U64())
		}
	case OpNull:
	}
	return op
}

// avoidKnownRename rewrites requests that match an open known finding (see
// KNOWN_FINDINGS.txt): a directory renamed into a different parent.
// initialAttrs: every fourth creation carries initial times and/or permission
// bits in its attributes (a server may honour or ignore them; whatever it then
// reports must be what a restart reports).
func (s *Sess) initialAttrs(op *Op) {
	r := s.rng
	if r.Intn(4) != 0 {
		return
	}
	if r.Intn(3) != 0 {
		op.SetMtime = 2
		op.Mtime = [2]uint32{uint32(946684800 + r.Intn(100000)), uint32(r.Intn(1000000000))}
	}
	if r.Intn(2) == 0 {
		op.SetAtime = 2
		op.Atime = [2]uint32{uint32(946684800 + r.Intn(100000)), uint32(r.Intn(1000000000))}
	}
	if r.Intn(3) == 0 {
		op.SetPerm = true
		op.Perm = r.PickU32([]uint32{0, 0644, 0755, 0400})
	}
}

func (s *Sess) avoidKnownRename(op *Op) {
	if !knownOpen("C04", "rename-dir-across-directories") && !knownOpen("C04", "rename-dir-into-own-subtree") {
		return
	}
	fd := s.m.Obj(op.H)
	td := s.m.Obj(op.H2)
	if fd == nil || td == nil || fd.ID == td.ID {
		return
	}
	src := s.m.lookupIn(fd, op.Name)
	if src != nil && src.Kind == KDir && op.Name != "." && op.Name != ".." {
		op.H2 = op.H
	}
}

func (r *Rng) PickU32(xs []uint32) uint32 { return xs[r.Intn(len(xs))] }
func (r *Rng) PickInt(xs []int) int       { return xs[r.Intn(len(xs))] }

func sortStrings(a []string) {
	for i := 1; i < len(a); i++ {
		for j := i; j > 0 && a[j] < a[j-1]; j-- {
			a[j], a[j-1] = a[j-1], a[j]
		}
	}
}

// ---------------------------------------------------------------------------

func outcomeClass(st uint32) string {
	switch st {
	case stOK:
		return "ok"
	case stSTALE:
		return "stale"
	case stNOTSUPP:
		return "notsupp"
	case stNOSPC:
		return "nospc"
	}
	return "err"
}

func (s *Sess) argClass(op *Op) string {
	c := ""
	if o := s.m.Obj(op.H); o == nil && op.H != nil {
		if s.m.Known(op.H) {
			c += "dead"
		} else {
			c += "garbage"
		}
	}
	switch op.K {
	case OpWrite, OpRead:
		switch {
		case op.Off >= (8+512)*BlockSize:
			c += "dind"
		case op.Off >= 8*BlockSize:
			c += "ind"
		default:
			c += "dir"
		}
		if op.Off%BlockSize != 0 {
			c += "+unal"
		}
	case OpCreate, OpMkdir, OpSymlink, OpRename, OpLookup, OpRemove, OpRmdir:
		n := op.Name
		if op.K == OpSymlink && len(op.Target) > BlockSize {
			c += "multiblock-target"
			if s.srv.N == nil {
			} else if free := s.srv.N.VerifFsState().Balloc.NumFree(); free > 0 && uint64(len(op.Target)) > free*BlockSize {
				c += "-larger-than-free-space"
			}
		}
		if op.K == OpRename {
			n = op.Name2
			fd, td := s.m.Obj(op.H), s.m.Obj(op.H2)
			if fd != nil && td != nil && fd.ID != td.ID && fd.Kind == KDir && td.Kind == KDir {
				if src := s.m.lookupIn(fd, op.Name); src != nil && src.Kind == KDir && op.Name != "." && op.Name != ".." {
					if s.m.isAncestor(src, td) {
						c += "dir-into-own-subtree"
					} else {
						c += "dir-to-other-parent"
					}
				}
			}
		}
		switch {
		case n == "" || n == "." || n == "..":
			c += "special"
		case len(n) >= s.m.Lim.NameMax-1:
			c += fmt.Sprintf("len%d", minInt(len(n)-s.m.Lim.NameMax, 2))
		}
	case OpSetattr:
		if op.SetSize {
			if o := s.m.Obj(op.H); o != nil {
				if op.Size < o.Size {
					c += "shrink"
					if op.Size%BlockSize != 0 {
						c += "+unal"
					}
				} else {
					c += "grow"
				}
			}
		}
	}
	return c
}

func minInt(a, b int) int {
	if a < b {
		return a
	}
	return b
}

// exec performs one operation on server and reference and records
// discrepancies.
func (s *Sess) exec(op *Op) *Res {
	s.step++
	if !s.m.AllowNoSpc && s.srv.N != nil && s.srv.N.VerifFsState().Balloc.NumFree() < 80 && diskFreeBlocks(s.srv.N.VerifFsState()) < 80 {
		// (both the running allocator and the bitmap on the logical disk say
		// so: an allocator that wrongly believes the disk is full must not
		// excuse itself)
		// the workload itself has (nearly) filled the disk: from here on
		// allocating requests may be refused, WRITEs may be short and holes
		// may not be materialisable by READ - the reference follows the
		// replies in these respects, exactly as in the nearly-full profiles
		s.m.AllowNoSpc = true
	}
	ac := s.argClass(op)
	var freeB, freeI uint64
	var fsBefore *FsckRes
	if s.p.AfterFail {
		s.srv.WaitIdle()
		st := s.srv.N.VerifFsState()
		freeB, freeI = st.Balloc.NumFree(), st.Ialloc.NumFree()
	}
	hookMark()
	res := doOp(s.srv.API, op)
	dirty := hookDirtySinceMark()
	if err := s.srv.TransportErr(); err != nil {
		s.viol("reply", "%s: transport error: %v", op, err)
	}
	s.logOp(fmt.Sprintf("%d %s => %d", s.step, op, res.Stat))
	s.res.Stats.Add(op.K.String() + "/" + outcomeClass(res.Stat) + "/" + ac)
	s.res.Ops++
	d := s.m.Apply(op, res)
	for _, m := range d.Msgs {
		cl := "reply"
		if strings.Contains(m, "handle") {
			cl = "handle"
		}
		if strings.HasPrefix(m, "READ off") {
			cl = "content"
		}
		s.viol(cl, "op %d %s: %s", s.step, op, m)
	}
	if op.K == OpReaddir || op.K == OpReaddirplus {
		s.followEnum(op, res)
	}
	if res.Stat == stOK && res.FH != nil {
		s.res.HandlesIssued++
		inum := leU64(res.FH)
		if op.K != OpLookup {
			s.inumSeen[inum]++
			if s.inumSeen[inum] > 1 {
				s.res.InodeReuse++
			}
		}
	}
	if op.K == OpWrite && res.Stat == stNOSPC {
		s.steerFollow = op.H
	}
	if o := s.m.Obj(op.H); o != nil && o.Kind == KReg && o.Size > s.res.MaxFile {
		s.res.MaxFile = o.Size
	}
	if s.p.AfterFail && res.Stat != stOK {
		s.res.FailChecks++
		if dirty {
			s.res.FailDirty++
		}
		s.srv.WaitIdle()
		st := s.srv.N.VerifFsState()
		b2, i2 := st.Balloc.NumFree(), st.Ialloc.NumFree()
		if b2 != freeB || i2 != freeI {
			s.viol("afterfail", "op %d %s failed with status %d but free blocks went %d -> %d, free inodes %d -> %d", s.step, op, res.Stat, freeB, b2, freeI, i2)
		}
		s.fullCheck("afterfail", fmt.Sprintf("after failed op %d %s (status %d)", s.step, op, res.Stat))
	}
	_ = fsBefore
	return res
}

// fullCheck compares the whole visible tree with the reference and runs the
// on-disk and cache checks.  class is used for tree/cache differences.
func (s *Sess) fullCheck(class, when string) {
	s.walkCompare(class, when)
	s.fsck(class, when)
}

func (s *Sess) modelHint() func(path string) []uint64 {
	ents := s.m.DumpEnts()
	byPath := map[string]*MObj{}
	var rec func(o *MObj, path string)
	rec = func(o *MObj, path string) {
		byPath[path] = o
		if o.Kind == KDir {
			for n, id := range o.Ents {
				rec(s.m.Objs[id], path+"/"+quoteName(n))
			}
		}
	}
	rec(s.m.Objs[s.m.Root], "")
	_ = ents
	return func(path string) []uint64 {
		if o, ok := byPath[path]; ok && o.Kind == KReg {
			return o.probePages()
		}
		return nil
	}
}

func (s *Sess) walkCompare(class, when string) {
	s.res.Walks++
	walkTolerant = s.m.AllowNoSpc
	got, werr := walkTree(s.srv.API, s.srv.Root, s.modelHint())
	walkTolerant = false
	for _, m := range werr.Msgs {
		s.viol(class, "%s: %s", when, m)
	}
	want := s.m.DumpEnts()
	gs, ws := dumpString(got), dumpString(want)
	if gs != ws {
		c := class
		if c == "dump" && strings.Contains(diffDumps(ws, gs), "data=") {
			c = "content"
		}
		s.viol(c, "%s: visible tree differs from the reference (- reference, + server):\n%s%s", when, diffDumps(ws, gs), s.firstByteDiff(got, want))
		return
	}
	// handles: a live object keeps the handle it was given
	gh := handleMap(got)
	for _, e := range want {
		if e.FH != nil && gh[e.Path] != nil && !bytes.Equal(e.FH, gh[e.Path]) {
			s.viol("handle", "%s: %s now has handle %x, it was issued %x", when, e.Path, gh[e.Path], e.FH)
		}
	}
}

func (s *Sess) fsck(class, when string) {
	s.srv.WaitIdle()
	s.res.Fscks++
	fr := s.srv.Fsck(FsckOpts{CheckCaches: true, ZeroScan: s.p.ZeroScan})
	cf, cl, cc := "fsck", "leak", "cache"
	if class == "afterfail" {
		// observed right after a failing RPC: the trace it left
		cf, cl, cc = class, class, class
	}
	for _, m := range fr.Errs {
		s.viol(cf, "%s: %s", when, m)
	}
	for _, m := range fr.Leaks {
		s.viol(cl, "%s: %s", when, m)
	}
	for _, m := range fr.CacheErrs {
		s.viol(cc, "%s: %s", when, m)
	}
	s.res.States[fr.StateHash] = true
	if fr.NIndirect > 0 || fr.MaxDepth > 0 {
		s.res.NonTrivial = true
	}
	s.res.CachedIno += fr.CachedIno
	s.res.CachedNames += fr.CachedNames
	cnt, cap := s.srv.N.VerifFsState().Icache.VerifCount()
	if cnt >= cap {
		s.res.Evictions = true
	}
}

func (s *Sess) restart() {
	s.srv.WaitIdle()
	s.logOp(fmt.Sprintf("%d RESTART", s.step))
	// a clean restart may lose unstable operations that were never flushed
	// (the write verifier changes); that contract is C07's.  Here the client
	// commits first.
	s.srv.Flush()
	s.srv = s.srv.Restart()
	s.res.Restarts++
}

// twinCompare (C10): flush, then compare everything a client can see on the
// live server with a second server recovered from a copy of the disk image
// and, separately, with the same server after a clean restart.
func (s *Sess) twinCompare(when string) {
	s.srv.WaitIdle()
	s.srv.Flush()
	s.res.Twins++
	walkTolerant = s.m.AllowNoSpc
	defer func() { walkTolerant = false }()
	live, w1 := walkTree(s.srv.API, s.srv.Root, s.modelHint())
	for _, m := range w1.Msgs {
		s.viol("twin", "%s (live server): %s", when, m)
	}
	// the walk above may have filled holes; flush again so that the image is
	// what the live server stands on
	s.srv.WaitIdle()
	s.srv.Flush()
	img := s.srv.D.Snapshot()
	twin := StartSrv(NewCDiskFrom(s.srv.D.Size(), img), SrvOpts{Unstable: s.p.Unstable})
	rec, w2 := walkTree(twin.API, twin.Root, s.modelHint())
	for _, m := range w2.Msgs {
		s.viol("twin", "%s (server recovered from the image): %s", when, m)
	}
	tfs := twin.Fsck(FsckOpts{CheckCaches: true})
	twin.Shutdown()
	for _, m := range append(tfs.Errs, tfs.Leaks...) {
		s.viol("twin", "%s (server recovered from the image): %s", when, m)
	}
	if a, b := fullDump(live), fullDump(rec); a != b {
		s.viol("twin", "%s: live server and server recovered from its image differ (- live, + recovered):\n%s", when, diffDumps(a, b))
	}
	// clean restart of the live server
	s.restart()
	after, w3 := walkTree(s.srv.API, s.srv.Root, s.modelHint())
	for _, m := range w3.Msgs {
		s.viol("twin", "%s (after clean restart): %s", when, m)
	}
	if a, b := fullDump(live), fullDump(after); a != b {
		s.viol("twin", "%s: server before and after a clean restart differ (- before, + after):\n%s", when, diffDumps(a, b))
	}
}

// fullDump renders everything observable incl. handles, file ids, times and
// listing order.
func fullDump(es []DumpEnt) string {
	var sb strings.Builder
	for _, e := range es {
		fmt.Fprintf(&sb, "%s fh=%x id=%d at=%v mt=%v %s list=%s\n", e.line(), e.FH, e.Fileid, e.Atime, e.Mtime, e.Attrs, e.List)
	}
	return sb.String()
}

// ---------------------------------------------------------------------------

func runSeq(p Profile, seed uint64, cas int) *SeqRes {
	res := &SeqRes{Profile: p.Name, Seed: seed, Case: cas, Stats: Counter{}, States: map[string]bool{}, DeadProbes: Counter{}}
	rng := NewRng(mix(seed, uint64(cas)+uint64(len(p.Name))*1000003))
	d := NewCDisk(p.DiskBlocks)
	srv := StartSrv(d, SrvOpts{Unstable: p.Unstable, RPC: p.RPC, Timed: p.Timed})
	lim, err := limitsOf(srv.API, srv.Root)
	s := &Sess{p: p, rng: rng, srv: srv, res: res, inumSeen: map[uint64]int{}}
	if err != nil {
		s.viol("reply", "%v", err)
		return res
	}
	s.m = NewModel(srv.Root, lim)
	s.m.AllowNoSpc = p.NearFull || p.InodeExhaust // a nearly exhausted inode table also refuses creations
	s.m.ForceSync = !p.Unstable
	s.names = append([]string{}, namePool...)
	s.names = append(s.names, longName(lim.NameMax, 'Q'), longName(lim.NameMax-1, 'P'))

	if p.ManyObjs > 0 {
		s.prepopulate(p.ManyObjs)
	}
	if p.InodeExhaust {
		s.exhaustInodes()
	}
	if p.HighBlocks {
		if p.DeleteAll {
			s.advanceAllocator(250)
		} else {
			s.advanceAllocator(-80) // just beyond the border: live data on both sides
		}
	}
	if p.HighBlocks && p.DeleteAll {
		s.shrinkBoundarySweep()
	}
	if p.ManyBigFrees {
		s.manyBigFrees()
	}
	if p.DeleteAll && p.DiskBlocks >= 8000 && !p.HighBlocks {
		s.sparseTailScript()
	}
	if (p.DeleteAll || p.Recycle) && p.DiskBlocks >= 8000 && !p.HighBlocks && !p.NearFull {
		s.sparseHoleScript()
	}
	if p.NearFull {
		s.fillDisk()
	}
	for i := 0; i < p.NOps && !s.stop; i++ {
		var op *Op
		if len(s.queue) > 0 {
			op = s.queue[0]
			s.queue = s.queue[1:]
			if s.m.Obj(op.H) == nil {
				op = nil // its file is gone
			}
		}
		if op != nil {
		} else if p.JournalReject && rng.Intn(10) == 0 {
			// fails at commit time, after it has edited cached inodes, the
			// directory and its name cache and allocated ~520 blocks
			d := s.srv.Root
			if o := s.pickObj(KDir); o != nil {
				d = o.FH
			}
			op = &Op{K: OpSymlink, H: d, Name: s.name(), Target: longName(520*BlockSize+1+rng.Intn(4000), 'J')}
		} else if p.Recycle && rng.Intn(45) == 0 && s.bigShrinkStraddle() {
			continue
		} else if p.Recycle && rng.Intn(25) == 0 {
			op = s.sparseBurst()
		} else if p.NearFull && (p.AfterFail || p.TwinEvery > 0 || p.FsckEvery > 0 || p.ZeroScan) && rng.Intn(5) < 2 {
			op = s.genSteer()
		} else if p.Recycle && rng.Intn(3) == 0 {
			op = s.genRecycle()
		} else if p.InodeChurn && rng.Intn(3) == 0 {
			op = s.genChurn()
		} else {
			op = s.genOp()
		}
		if p.StallInstaller {
			switch i % 16 {
			case 4:
				d.HoldHome(uint64(common.LOGSIZE))
			case 10:
				d.ReleaseHome()
			}
		}
		s.exec(op)
		if p.DeadProbe && rng.Intn(12) == 0 {
			s.deadProbe()
		}
		if (p.DeadProbe || p.WalkEvery > 0) && rng.Intn(30) == 0 {
			s.switchScript()
		}
		if (p.DeadProbe || p.DeleteAll || p.FsckEvery > 0 || p.WalkEvery > 0) && rng.Intn(40) == 0 {
			s.dirMoveScript()
		}
		if p.FsckEvery > 0 && s.step%p.FsckEvery == 0 {
			s.fsck("fsck", fmt.Sprintf("after op %d %s", s.step, op))
		}
		if p.WalkEvery > 0 && s.step%p.WalkEvery == 0 {
			s.walkCompare("dump", fmt.Sprintf("after op %d", s.step))
		}
		if p.TwinEvery > 0 && s.step%p.TwinEvery == 0 {
			s.twinCompare(fmt.Sprintf("after op %d", s.step))
		} else if p.RestartEvery > 0 && rng.Intn(p.RestartEvery) == 0 {
			s.restart()
			s.walkCompare("dump", fmt.Sprintf("after restart following op %d", s.step))
		}
	}
	if s.stop && p.TwinEvery > 0 {
		// the reference has diverged (an oracle of another property fired);
		// the comparison of the running server with a restart from its disk
		// needs no reference
		twinOnly := true
		for _, v := range res.Viol {
			if v.Class == "twin" || v.Class == "cache" {
				twinOnly = false
			}
		}
		if twinOnly {
			s.twinCompare("after the reference had diverged")
		}
	}
	if !s.stop {
		if p.Sweep {
			s.freeSpaceSweep()
		}
		s.fullCheck("dump", "at the end")
		if p.DeleteAll && !s.stop {
			s.deleteAll()
		}
		if p.TwinEvery > 0 {
			s.twinCompare("at the end")
		}
	}
	if debugOn {
		for _, l := range res.OpLog {
			fmt.Println("DEBUG oplog", l)
		}
	}
	res.NoSpcFollowed = s.m.NoSpcFollowed
	if len(res.OpLog) > 0 {
		n := minInt(len(res.OpLog), 12)
		res.Sample = append([]string{}, res.OpLog[:n]...)
	}
	s.srv.WaitIdle()
	s.srv.Shutdown()
	return res
}

// prepopulate creates n objects in a few directories (more than the inode
// cache holds) and a directory that spans many blocks.
func (s *Sess) prepopulate(n int) {
	big := &Op{K: OpMkdir, H: s.srv.Root, Name: "big"}
	r := s.exec(big)
	if r.Stat != stOK {
		return
	}
	bigfh := r.FH
	for i := 0; i < n; i++ {
		k := OpCreate
		if i%7 == 3 {
			k = OpMkdir
		} else if i%11 == 5 {
			k = OpSymlink
		}
		name := fmt.Sprintf("o%03d", i)
		if i%3 == 1 {
			// names longer than 96 bytes (more reply bytes than directory bytes per entry)
			name += longName(s.m.Lim.NameMax-4-(i%9), 'L')
		}
		rr := s.exec(&Op{K: k, H: bigfh, Name: name, Target: "tgt"})
		if rr.Stat == stOK && k == OpCreate && i%3 == 0 {
			s.nextUid++
			s.exec(&Op{K: OpWrite, H: rr.FH, Off: uint64(i%5) * 1000, Count: 3000, DataLen: 3000, Uid: s.nextUid, Stable: 2})
		}
	}
	// a directory whose names are all longer than 96 bytes (its listing needs
	// more reply bytes than the directory has bytes)
	if lr := s.exec(&Op{K: OpMkdir, H: s.srv.Root, Name: "longs"}); lr.Stat == stOK {
		for i := 0; i < 40; i++ {
			s.exec(&Op{K: OpCreate, H: lr.FH, Name: fmt.Sprintf("%03d", i) + longName(s.m.Lim.NameMax-3, 'N')})
		}
	}
	// after a restart (name caches rebuilt from disk): every long name must
	// still be known - creating it again must be refused
	if lr := s.m.lookupIn(s.m.Objs[s.m.Root], "longs"); lr != nil && lr.FH != nil {
		if s.p.TwinEvery > 0 {
			s.twinCompare("after building the directories") // ends with a clean restart
		} else {
			s.restart()
		}
		for i := 34; i < 40; i++ {
			s.exec(&Op{K: []OpKind{OpCreate, OpMkdir, OpSymlink}[i%3], H: lr.FH, Name: fmt.Sprintf("%03d", i) + longName(s.m.Lim.NameMax-3, 'N'), Target: "t"})
		}
		if s.p.FsckEvery > 0 {
			s.fsck("fsck", "after re-creating existing long names following a restart")
		}
	}
	// punch free slots into the big directory
	for i := 0; i < n; i += 15 {
		s.exec(&Op{K: OpRemove, H: bigfh, Name: fmt.Sprintf("o%03d", i)})
	}
}

// advanceAllocator fills the part of the disk that the first block of the
// block bitmap describes (blocks < 32768) with one live file, so that
// everything the sequence allocates afterwards - before and after restarts -
// lives in the part described by the second bitmap block.
func (s *Sess) advanceAllocator(leave int) {
	r := s.exec(&Op{K: OpCreate, H: s.srv.Root, Name: "lowfill"})
	if r.Stat != stOK {
		return
	}
	st := s.srv.N.VerifFsState()
	total := 0
	// blocks in use so far (they are contiguous from block 0: next-fit and
	// nothing has been freed); if the allocator's own count is implausible
	// fall back to an estimate
	used0 := int(uint64(st.Super.MaxBnum()) - st.Balloc.NumFree())
	if used0 < int(st.Super.DataStart()) || used0 > int(st.Super.DataStart())+3000 {
		used0 = int(st.Super.DataStart()) + 30 + len(s.m.LiveObjs())
	}
	// stop leave blocks below block 32768 (negative: beyond it)
	for k := 0; k < 600 && used0+total+total/512+2+64+1 <= 32768-leave; k++ {
		s.nextUid++
		n := uint32(64 * BlockSize)
		w := s.exec(&Op{K: OpWrite, H: r.FH, Off: uint64(k) * uint64(n), Count: n, DataLen: n, Uid: s.nextUid, Stable: 0})
		if w.Stat != stOK {
			break
		}
		total += 64
	}
	s.exec(&Op{K: OpCommit, H: r.FH})
	s.res.Stats.Add(fmt.Sprintf("low-32768-blocks-filled-with/%d", total/1000*1000))
}

// shrinkBoundarySweep (after advanceAllocator): files that consist of k
// blocks in the double-indirect range only, for every k around the number of
// blocks one shrink transaction can free, are removed one by one; their blocks
// straddle the border between the two blocks of the block bitmap (a restart
// before each makes the allocator start at the same place again).  The
// background free must neither overflow its transaction nor lose a block.
func (s *Sess) shrinkBoundarySweep() {
	root := s.srv.Root
	st := s.srv.N.VerifFsState()
	s.srv.WaitIdle()
	free0 := st.Balloc.NumFree()
	for k := 498; k <= 514 && !s.stop; k++ {
		s.restart()
		st = s.srv.N.VerifFsState()
		r := s.exec(&Op{K: OpCreate, H: root, Name: "victim"})
		if r.Stat != stOK {
			return
		}
		base := uint64(8+512) * BlockSize
		for done := 0; done < k; {
			n := minInt(k-done, 200)
			s.nextUid++
			w := s.exec(&Op{K: OpWrite, H: r.FH, Off: base + uint64(done)*BlockSize, Count: uint32(n * BlockSize), DataLen: uint32(n * BlockSize), Uid: s.nextUid, Stable: 0})
			if w.Stat != stOK {
				return
			}
			done += n
		}
		if debugOn {
			st2 := s.srv.N.VerifFsState()
			fmt.Println("DEBUG victim k", k, "free", st2.Balloc.NumFree(), "of", st2.Super.MaxBnum(), "datastart", st2.Super.DataStart())
		}
		if k%2 == 0 {
			s.exec(&Op{K: OpRemove, H: root, Name: "victim"})
		} else {
			s.exec(&Op{K: OpSetattr, H: r.FH, SetSize: true, Size: 0})
			s.exec(&Op{K: OpRemove, H: root, Name: "victim"})
		}
		s.srv.WaitIdle()
		if f := st.Balloc.NumFree(); f != free0 {
			s.viol("leak", "file of %d blocks in the double-indirect range, created and removed across the bitmap-block border: %d blocks free before, %d after", k, free0, f)
		}
	}
	s.res.Stats.Add("shrink-transaction-boundary-sweep")
}

// sparseTailScript: files whose data ends exactly at an index-range border
// (file blocks 7|8 and 519|520) and whose size reaches beyond it without any
// block there; one is truncated below the border, the other removed.  Every
// block must come back (conservation is checked by the caller's fsck and at
// the end by delete-everything).
func (s *Sess) sparseTailScript() {
	root := s.srv.Root
	st := s.srv.N.VerifFsState()
	s.srv.WaitIdle()
	free0 := st.Balloc.NumFree()
	for i, border := range []uint64{8, 8 + 512} {
		name := fmt.Sprintf("tail%d", i)
		r := s.exec(&Op{K: OpCreate, H: root, Name: name})
		if r.Stat != stOK {
			return
		}
		s.nextUid++
		n := uint32(6 * BlockSize)
		s.exec(&Op{K: OpWrite, H: r.FH, Off: (border - 6) * BlockSize, Count: n, DataLen: n, Uid: s.nextUid, Stable: 0})
		s.exec(&Op{K: OpSetattr, H: r.FH, SetSize: true, Size: (border + 9) * BlockSize})
		if i == 0 {
			s.exec(&Op{K: OpSetattr, H: r.FH, SetSize: true, Size: 3 * BlockSize})
		}
		s.exec(&Op{K: OpRemove, H: root, Name: name})
	}
	s.srv.WaitIdle()
	if f := st.Balloc.NumFree(); f != free0 {
		s.viol("leak", "two files whose data ends at an index-range border (size beyond it) were truncated/removed: %d blocks free before, %d after", free0, f)
	}
}

// manyBigFrees: several files that are too big to be freed inside the
// removing transaction are removed (or truncated, or overwritten by a rename)
// back to back, so that all their background frees are in flight together;
// once the server is idle everything must have been given back.
// sparseHoleScript: sparse files in the double-indirect range with a whole
// second-level index range missing (a hole of >= 512 aligned blocks) between
// data that ends exactly at the range border below it and the file's end
// above it; removed, or truncated into the data below the hole, regrown and
// read.  Everything must come back, and the regrown region must read as zero.
func (s *Sess) sparseHoleScript() {
	root := s.srv.Root
	st := s.srv.N.VerifFsState()
	s.srv.WaitIdle()
	free0 := st.Balloc.NumFree()
	const first = 8 + 512 // first file block of the double-indirect range
	for i, c := range []uint64{1, 2, 3, 1} {
		name := fmt.Sprintf("holes%d", i)
		r := s.exec(&Op{K: OpCreate, H: root, Name: name})
		if r.Stat != stOK {
			return
		}
		border := first + 512*c // first block of second-level range c (left empty)
		n := uint32(8 * BlockSize)
		if i == 3 {
			n = uint32(16 * BlockSize)
		}
		s.nextUid++
		s.exec(&Op{K: OpWrite, H: r.FH, Off: border*BlockSize - uint64(n), Count: n, DataLen: n, Uid: s.nextUid, Stable: 0})
		switch i % 2 {
		case 0: // one block of data above the hole
			s.nextUid++
			s.exec(&Op{K: OpWrite, H: r.FH, Off: (border + 512 + 5) * BlockSize, Count: 100, DataLen: 100, Uid: s.nextUid, Stable: 0})
		case 1: // only the size reaches above the hole
			s.exec(&Op{K: OpSetattr, H: r.FH, SetSize: true, Size: (border+1024)*BlockSize + 17})
		}
		if i >= 2 {
			// truncate into the data below the hole, grow again, read it
			s.exec(&Op{K: OpSetattr, H: r.FH, SetSize: true, Size: (border-4)*BlockSize + 100})
			s.srv.WaitIdle()
			s.exec(&Op{K: OpSetattr, H: r.FH, SetSize: true, Size: (border + 3) * BlockSize})
			s.exec(&Op{K: OpRead, H: r.FH, Off: (border - 8) * BlockSize, Count: 11 * BlockSize})
		}
		s.exec(&Op{K: OpRemove, H: root, Name: name})
		s.srv.WaitIdle()
	}
	if f := st.Balloc.NumFree(); f != free0 {
		s.viol("leak", "four sparse files with a missing second-level index range between their data and their end were truncated/removed: %d blocks free before, %d after all background freeing has finished", free0, f)
	}
	s.res.Stats.Add("sparse-files-with-a-missing-second-level-range")
}

func (s *Sess) manyBigFrees() {
	root := s.srv.Root
	st := s.srv.N.VerifFsState()
	s.srv.WaitIdle()
	free0 := st.Balloc.NumFree()
	const nfiles = 7
	var fhs [][]byte
	for i := 0; i < nfiles; i++ {
		r := s.exec(&Op{K: OpCreate, H: root, Name: fmt.Sprintf("bigfree%d", i)})
		if r.Stat != stOK {
			return
		}
		fhs = append(fhs, r.FH)
		for k := 0; k < 9; k++ {
			s.nextUid++
			n := uint32(64 * BlockSize)
			s.exec(&Op{K: OpWrite, H: r.FH, Off: uint64(k) * uint64(n), Count: n, DataLen: n, Uid: s.nextUid, Stable: 0})
		}
	}
	s.exec(&Op{K: OpCreate, H: root, Name: "small"})
	for i := 0; i < nfiles; i++ {
		switch i % 3 {
		case 0, 1:
			s.exec(&Op{K: OpRemove, H: root, Name: fmt.Sprintf("bigfree%d", i)})
		case 2:
			s.exec(&Op{K: OpSetattr, H: fhs[i], SetSize: true, Size: 0})
		}
	}
	s.srv.WaitIdle()
	s.fullCheck("dump", "after seven big frees in flight together")
	for i := 2; i < nfiles; i += 3 {
		s.exec(&Op{K: OpRemove, H: root, Name: fmt.Sprintf("bigfree%d", i)})
	}
	s.exec(&Op{K: OpRemove, H: root, Name: "small"})
	s.srv.WaitIdle()
	if f := st.Balloc.NumFree(); f != free0 {
		s.viol("leak", "seven big files created and freed together: %d blocks free before, %d after all background freeing has finished", free0, f)
	}
	s.res.Stats.Add("seven-big-frees-in-flight")
	// an orderly shutdown with several background frees still running: it has
	// to wait for all of them (no crash happens here, so nothing may be left
	// half-freed on the disk the next instance starts from)
	for i := 0; i < 3; i++ {
		r := s.exec(&Op{K: OpCreate, H: root, Name: fmt.Sprintf("bigdown%d", i)})
		if r.Stat != stOK {
			return
		}
		for k := 0; k < 9+3*i; k++ {
			s.nextUid++
			n := uint32(64 * BlockSize)
			s.exec(&Op{K: OpWrite, H: r.FH, Off: uint64(k) * uint64(n), Count: n, DataLen: n, Uid: s.nextUid, Stable: 0})
		}
	}
	s.srv.WaitIdle()
	s.srv.Flush()
	for i := 0; i < 3; i++ {
		s.exec(&Op{K: OpRemove, H: root, Name: fmt.Sprintf("bigdown%d", i)})
	}
	s.logOp(fmt.Sprintf("%d RESTART (clean, background frees in flight)", s.step))
	s.srv = s.srv.Restart()
	s.res.Restarts++
	st = s.srv.N.VerifFsState()
	if f := diskFreeBlocks(st); f != free0 || st.Balloc.NumFree() != free0 {
		s.viol("leak", "three big files removed, then an orderly shutdown (no crash) and a restart: %d blocks were free before the files existed, now the bitmap on disk has %d free and the allocator %d (the shutdown did not wait for all background frees)", free0, f, st.Balloc.NumFree())
	}
	s.fullCheck("dump", "after an orderly shutdown with three background frees in flight")
	s.res.Stats.Add("orderly-shutdown-with-frees-in-flight")
	// more background frees in flight than any plausible cap on their number:
	// 72 sparse files (one data block beyond file block 600 each) are truncated
	// back to back while the shrinker threads are held at their first iteration
	root = s.srv.Root
	dirBlocks := func() uint64 { // the root directory grows with the names (directories never shrink)
		return (doOp(s.srv.API, &Op{K: OpGetattr, H: root}).Size + BlockSize - 1) / BlockSize
	}
	rootBlocks0 := dirBlocks()
	var sp [][]byte
	for i := 0; i < 72; i++ {
		r := s.exec(&Op{K: OpCreate, H: root, Name: fmt.Sprintf("sparsefree%d", i)})
		if r.Stat != stOK {
			break
		}
		s.nextUid++
		s.exec(&Op{K: OpWrite, H: r.FH, Off: uint64(600+i) * BlockSize, Count: 100, DataLen: 100, Uid: s.nextUid, Stable: 0})
		sp = append(sp, r.FH)
	}
	s.srv.WaitIdle()
	mon.HoldShrinkers()
	for _, fh := range sp {
		s.exec(&Op{K: OpSetattr, H: fh, SetSize: true, Size: 0})
	}
	held := mon.ReleaseShrinkers()
	s.srv.WaitIdle()
	for i := range sp {
		s.exec(&Op{K: OpRemove, H: root, Name: fmt.Sprintf("sparsefree%d", i)})
	}
	s.srv.WaitIdle()
	st = s.srv.N.VerifFsState()
	if f, grown := st.Balloc.NumFree(), dirBlocks()-rootBlocks0; f+grown != free0 {
		s.viol("leak", "72 sparse files truncated with %d background frees held in flight, then removed: %d blocks free before, %d after (the root directory grew by %d blocks)", held, free0, f, grown)
	}
	s.fullCheck("dump", "after 72 background frees in flight together")
	s.res.Stats.Add(fmt.Sprintf("background-frees-held-in-flight-%d", held/8*8))
}

// fillDisk leaves only a handful of free blocks.
func (s *Sess) fillDisk() {
	r := s.exec(&Op{K: OpCreate, H: s.srv.Root, Name: "filler"})
	if r.Stat != stOK {
		return
	}
	fh := r.FH
	st := s.srv.N.VerifFsState()
	leave := uint64(3 + s.rng.Intn(40))
	off := uint64(0)
	for st.Balloc.NumFree() > leave+80 {
		s.nextUid++
		n := uint32(64 * BlockSize)
		s.exec(&Op{K: OpWrite, H: fh, Off: off, Count: n, DataLen: n, Uid: s.nextUid, Stable: 2})
		off += uint64(n)
	}
	for st.Balloc.NumFree() > leave {
		s.nextUid++
		rr := s.exec(&Op{K: OpWrite, H: fh, Off: off, Count: BlockSize, DataLen: BlockSize, Uid: s.nextUid, Stable: 2})
		if rr.Stat != stOK {
			break
		}
		off += BlockSize
	}
}

// genRecycle biases towards block recycling: fill, delete, shrink to
// aligned/unaligned sizes, regrow, sparse writes.
func (s *Sess) genRecycle() *Op {
	r := s.rng
	o := s.pickObj(KReg)
	if o == nil {
		return &Op{K: OpCreate, H: s.srv.Root, Name: s.name()}
	}
	switch r.Intn(6) {
	case 0: // fill with a recognisable pattern
		s.nextUid++
		n := r.PickU32([]uint32{BlockSize, 3 * BlockSize, 10 * BlockSize, 64 * BlockSize})
		return &Op{K: OpWrite, H: o.FH, Off: (o.Size / BlockSize) * BlockSize, Count: n, DataLen: n, Uid: s.nextUid, Stable: r.Intn(3)}
	case 1: // shrink to an unaligned size
		if o.Size > 1 {
			return &Op{K: OpSetattr, H: o.FH, SetSize: true, Size: r.U64() % o.Size}
		}
	case 2: // shrink to an aligned size
		if o.Size > BlockSize {
			return &Op{K: OpSetattr, H: o.FH, SetSize: true, Size: (r.U64() % (o.Size / BlockSize)) * BlockSize}
		}
	case 3: // grow by SETATTR
		return &Op{K: OpSetattr, H: o.FH, SetSize: true, Size: o.Size + uint64(r.Intn(6*BlockSize))}
	case 4: // write beyond the end (gap)
		s.nextUid++
		n := r.PickU32([]uint32{1, 10, 500, BlockSize})
		return &Op{K: OpWrite, H: o.FH, Off: o.Size + uint64(r.Intn(5*BlockSize)), Count: n, DataLen: n, Uid: s.nextUid, Stable: r.Intn(3)}
	case 5: // read across the end
		off := uint64(0)
		if o.Size > 0 {
			off = r.U64() % o.Size
		}
		return &Op{K: OpRead, H: o.FH, Off: off, Count: 65536}
	}
	return s.genOp()
}

// genChurn: create/remove cycles so that inode numbers are reused.
func (s *Sess) genChurn() *Op {
	r := s.rng
	dfh := s.dirHandle()
	d := s.m.Obj(dfh)
	if d == nil || d.Kind != KDir {
		dfh = s.srv.Root
		d = s.m.Obj(dfh)
	}
	if len(d.Ents) > 4 && r.Intn(2) == 0 {
		n := s.existingName(dfh)
		t := s.m.lookupIn(d, n)
		if t != nil && t.Kind == KDir {
			return &Op{K: OpRmdir, H: dfh, Name: n}
		}
		return &Op{K: OpRemove, H: dfh, Name: n}
	}
	k := []OpKind{OpCreate, OpCreate, OpMkdir, OpSymlink}[r.Intn(4)]
	return &Op{K: k, H: dfh, Name: s.name(), Target: "x"}
}

// dirMoveScript: a directory is moved to another parent (and sometimes back
// and forth), emptied and removed, then both parents are removed; the handles
// of all three directories must be stale afterwards in every procedure (a
// link count that does not follow the move keeps an inode alive without a
// name).
func (s *Sess) dirMoveScript() {
	root := s.srv.Root
	mk := func(k OpKind, dir []byte, name string) []byte {
		if dir == nil {
			return nil
		}
		r := s.exec(&Op{K: k, H: dir, Name: name, Target: "t"})
		if r.Stat != stOK {
			return nil
		}
		return r.FH
	}
	pn, qn := fmt.Sprintf("mvp%d", s.step), fmt.Sprintf("mvq%d", s.step)
	p := mk(OpMkdir, root, pn)
	q := mk(OpMkdir, root, qn)
	c := mk(OpMkdir, q, "c")
	if p == nil || q == nil || c == nil || mk(OpCreate, c, "f") == nil {
		return
	}
	if s.rng.Intn(2) == 0 {
		mk(OpMkdir, p, "c") // the move replaces an existing empty directory
	}
	if s.exec(&Op{K: OpRename, H: q, Name: "c", H2: p, Name2: "c"}).Stat != stOK {
		return
	}
	s.exec(&Op{K: OpLookup, H: c, Name: ".."})
	s.exec(&Op{K: OpReaddirplus, H: c, Count: 4096, Dircount: 4096})
	if s.rng.Intn(2) == 0 {
		s.exec(&Op{K: OpRename, H: p, Name: "c", H2: q, Name2: "c2"})
		s.exec(&Op{K: OpRename, H: q, Name: "c2", H2: p, Name2: "c"})
	}
	if s.rng.Intn(3) == 0 {
		s.restart()
	}
	s.exec(&Op{K: OpRemove, H: c, Name: "f"})
	s.exec(&Op{K: OpRmdir, H: p, Name: "c"})
	s.exec(&Op{K: OpRmdir, H: root, Name: pn})
	s.exec(&Op{K: OpRmdir, H: root, Name: qn})
	for _, h := range [][]byte{p, q, c} {
		for _, op := range []*Op{{K: OpGetattr, H: h}, {K: OpLookup, H: h, Name: "."}, {K: OpReaddirplus, H: h, Count: 4096, Dircount: 4096}, {K: OpCreate, H: h, Name: "zz"}, {K: OpRename, H: h, Name: "a", H2: root, Name2: "zz"}} {
			s.exec(op)
		}
	}
	s.res.Stats.Add("directory-move-script")
}

// deadProbe (C08) presents one dead handle to every procedure and handle
// position; the reference expects NFS3ERR_STALE and no effect.
// switchScript: the "atomic switch" idiom - an object that has been used
// through its handle (READLINK / READ / READDIR) is replaced by renaming a new
// object over its name; the old handle must be stale at once in the very
// procedures that answered it before, the name must lead to the new object.
func (s *Sess) switchScript() {
	s.nextUid++
	n := s.nextUid
	d := s.srv.Root
	if o := s.pickObj(KDir); o != nil && s.rng.Intn(2) == 0 {
		d = o.FH
	}
	cur, next := fmt.Sprintf("cur%d", n), fmt.Sprintf("next%d", n)
	switch s.rng.Intn(3) {
	case 0:
		a := s.exec(&Op{K: OpSymlink, H: d, Name: cur, Target: fmt.Sprintf("release-%d", n)})
		if a.Stat != stOK {
			return
		}
		s.exec(&Op{K: OpReadlink, H: a.FH})
		s.exec(&Op{K: OpReadlink, H: a.FH})
		if b := s.exec(&Op{K: OpSymlink, H: d, Name: next, Target: fmt.Sprintf("release-%d", n+1)}); b.Stat != stOK {
			return
		}
		s.exec(&Op{K: OpRename, H: d, Name: next, H2: d, Name2: cur})
		s.exec(&Op{K: OpReadlink, H: a.FH})
		s.exec(&Op{K: OpGetattr, H: a.FH})
		if l := s.exec(&Op{K: OpLookup, H: d, Name: cur}); l.Stat == stOK {
			s.exec(&Op{K: OpReadlink, H: l.FH})
		}
	case 1:
		a := s.exec(&Op{K: OpCreate, H: d, Name: cur})
		if a.Stat != stOK {
			return
		}
		s.nextUid++
		s.exec(&Op{K: OpWrite, H: a.FH, Off: 0, Count: 5000, DataLen: 5000, Uid: s.nextUid, Stable: 0})
		s.exec(&Op{K: OpRead, H: a.FH, Off: 0, Count: 8192})
		b := s.exec(&Op{K: OpCreate, H: d, Name: next})
		if b.Stat != stOK {
			return
		}
		s.nextUid++
		s.exec(&Op{K: OpWrite, H: b.FH, Off: 0, Count: 300, DataLen: 300, Uid: s.nextUid, Stable: 0})
		s.exec(&Op{K: OpRename, H: d, Name: next, H2: d, Name2: cur})
		s.exec(&Op{K: OpRead, H: a.FH, Off: 0, Count: 8192})
		s.exec(&Op{K: OpCommit, H: a.FH})
		s.exec(&Op{K: OpRead, H: b.FH, Off: 0, Count: 8192})
	case 2:
		a := s.exec(&Op{K: OpMkdir, H: d, Name: cur})
		if a.Stat != stOK {
			return
		}
		s.exec(&Op{K: OpReaddirplus, H: a.FH, Count: 4096, Dircount: 4096})
		s.exec(&Op{K: OpLookup, H: a.FH, Name: "."})
		b := s.exec(&Op{K: OpMkdir, H: d, Name: next})
		if b.Stat != stOK {
			return
		}
		s.exec(&Op{K: OpRename, H: d, Name: next, H2: d, Name2: cur})
		s.exec(&Op{K: OpReaddirplus, H: a.FH, Count: 4096, Dircount: 4096})
		s.exec(&Op{K: OpReaddir, H: a.FH, Count: 4096})
		s.exec(&Op{K: OpLookup, H: a.FH, Name: ".."})
		s.exec(&Op{K: OpCreate, H: a.FH, Name: "into-the-dead-directory"})
		s.exec(&Op{K: OpLookup, H: b.FH, Name: ".."})
	}
	s.res.Stats.Add("switch-script")
}

func (s *Sess) deadProbe() {
	dead := s.m.DeadFHs()
	if len(dead) == 0 {
		return
	}
	h := dead[s.rng.Intn(len(dead))]
	reused := "fresh"
	inum := leU64(h)
	for _, o := range s.m.LiveObjs() {
		if o.FH != nil && leU64(o.FH) == inum {
			reused = "reused"
		}
	}
	live := s.srv.Root
	if o := s.pickObj(KDir); o != nil {
		live = o.FH
	}
	en := s.existingName(live)
	probes := []*Op{
		{K: OpGetattr, H: h}, {K: OpSetattr, H: h, SetSize: true, Size: 0}, {K: OpSetattr, H: h, SetMtime: 2},
		{K: OpLookup, H: h, Name: "a"}, {K: OpLookup, H: h, Name: "."}, {K: OpLookup, H: h, Name: ".."},
		{K: OpAccess, H: h}, {K: OpReadlink, H: h}, {K: OpRead, H: h, Count: 10},
		{K: OpWrite, H: h, Count: 10, DataLen: 10, Uid: 1, Stable: 2},
		{K: OpWrite, H: h, Count: 0, DataLen: 0, Uid: 1, Stable: 0}, {K: OpRead, H: h, Count: 0}, {K: OpSetattr, H: h},
		{K: OpCommit, H: h, Off: 0, Count: 0}, {K: OpReaddir, H: h, Count: 0}, {K: OpLookup, H: h, Name: ""},
		{K: OpCreate, H: h, Name: "zz"}, {K: OpMkdir, H: h, Name: "zz"}, {K: OpSymlink, H: h, Name: "zz", Target: "t"},
		{K: OpRemove, H: h, Name: "a"}, {K: OpRmdir, H: h, Name: "a"},
		{K: OpRename, H: h, Name: "a", H2: h, Name2: "b"},
		{K: OpRename, H: h, Name: "a", H2: live, Name2: "zz"},
		{K: OpRename, H: live, Name: en, H2: h, Name2: "zz"},
		{K: OpRename, H: live, Name: en, H2: h, Name2: en},
		{K: OpReaddir, H: h, Count: 4096}, {K: OpReaddirplus, H: h, Count: 4096, Dircount: 4096},
		{K: OpFsinfo, H: h}, {K: OpPathconf, H: h}, {K: OpCommit, H: h},
	}
	for _, op := range probes {
		pos := "obj"
		if op.K == OpRename {
			if bytes.Equal(op.H, h) && bytes.Equal(op.H2, h) {
				pos = "both"
			} else if bytes.Equal(op.H, h) {
				pos = "from"
			} else {
				pos = "to"
			}
		}
		s.res.DeadProbes.Add(op.K.String() + "/" + pos + "/" + reused)
		s.exec(op)
	}
}

// freeSpaceSweep (C12): hand out every free block through new files, writing
// one byte per block, and read everything back: all other bytes must be zero.
func (s *Sess) freeSpaceSweep() {
	s.srv.WaitIdle()
	// from here on the disk is full: holes can no longer be materialised
	s.m.AllowNoSpc = true
	st := s.srv.N.VerifFsState()
	for f := 0; f < 200 && st.Balloc.NumFree() > 0; f++ {
		r := s.exec(&Op{K: OpCreate, H: s.srv.Root, Name: fmt.Sprintf("sweep%d", f)})
		if r.Stat != stOK {
			break
		}
		fh := r.FH
		full := false
		nb := 0
		for b := uint64(0); b < 500; b++ {
			s.nextUid++
			off := b*BlockSize + uint64(s.rng.Intn(BlockSize))
			w := s.exec(&Op{K: OpWrite, H: fh, Off: off, Count: 1, DataLen: 1, Uid: s.nextUid, Stable: 0})
			if w.Stat != stOK || w.Count != 1 {
				full = true
				break
			}
			nb++
			s.res.SweepBlocks++
		}
		// read the file back completely
		if o := s.m.Obj(fh); o != nil {
			for off := uint64(0); off < o.Size; off += 16 * BlockSize {
				s.exec(&Op{K: OpRead, H: fh, Off: off, Count: 16 * BlockSize})
			}
		}
		if full {
			break
		}
	}
}

// deleteAll (C05) removes every object (post-order) and requires that only
// the root and the blocks of the root directory remain in use.
func (s *Sess) deleteAll() {
	var rec func(d *MObj)
	rec = func(d *MObj) {
		names := make([]string, 0, len(d.Ents))
		for n := range d.Ents {
			names = append(names, n)
		}
		sortStrings(names)
		for _, n := range names {
			c := s.m.Objs[d.Ents[n]]
			if c.Kind == KDir {
				rec(c)
				s.exec(&Op{K: OpRmdir, H: d.FH, Name: n})
			} else {
				s.exec(&Op{K: OpRemove, H: d.FH, Name: n})
			}
		}
	}
	rec(s.m.Objs[s.m.Root])
	if s.rng.Intn(2) == 0 {
		s.restart()
	}
	s.srv.WaitIdle()
	s.res.Fscks++
	fr := s.srv.Fsck(FsckOpts{CheckCaches: true})
	for _, m := range fr.Leaks {
		s.viol("leak", "after deleting everything: %s", m)
	}
	for _, m := range fr.Errs {
		s.viol("fsck", "after deleting everything: %s", m)
	}
	if fr.NInodes != 1 {
		s.viol("leak", "after deleting everything %d inodes are still in use (want 1, the root)", fr.NInodes)
	}
	total := s.srv.D.Size() - uint64(s.srv.N.VerifFsState().Super.DataStart())
	if fr.FreeBlocks+uint64(fr.NBlocks) != total || fr.MemFreeBlk != fr.FreeBlocks+s.bitmapSlack() {
		s.viol("leak", "after deleting everything: %d blocks free on disk, %d free in memory, %d owned by the root, data region has %d", fr.FreeBlocks, fr.MemFreeBlk, fr.NBlocks, total)
	}
	s.res.States[fr.StateHash+"-empty"] = true
}

// bitmapSlack: the in-memory allocator counts all bits of the bitmap blocks;
// bits of non-data blocks are set, so there is none.
func (s *Sess) bitmapSlack() uint64 { return 0 }

// firstByteDiff locates the first differing byte of the first file whose
// contents differ (diagnostic for content violations).
func (s *Sess) firstByteDiff(got, want []DumpEnt) string {
	gm := map[string]DumpEnt{}
	for _, e := range got {
		gm[e.Path] = e
	}
	for _, w := range want {
		g, ok := gm[w.Path]
		if !ok || w.Kind != KReg || g.Kind != KReg || g.Size != w.Size || g.Hash == w.Hash || w.Size > fullReadCap {
			continue
		}
		o := s.m.Obj(w.FH)
		if o == nil {
			continue
		}
		for off := uint64(0); off < w.Size; off += 16 * BlockSize {
			n := minU64(16*BlockSize, w.Size-off)
			r := doOp(s.srv.API, &Op{K: OpRead, H: g.FH, Off: off, Count: uint32(n)})
			exp := o.readAt(off, uint64(len(r.Data)))
			for i := range r.Data {
				if r.Data[i] != exp[i] {
					return fmt.Sprintf("\nfirst difference: %s offset %d: server %#x, reference %#x", w.Path, off+uint64(i), r.Data[i], exp[i])
				}
			}
			if len(r.Data) == 0 {
				break
			}
		}
		return fmt.Sprintf("\n%s: hashes differ but a second read agrees with the reference", w.Path)
	}
	return ""
}

// genSteer (C09) keeps the number of free blocks between 0 and 3 and aims
// requests at the paths that fail after having started to modify state.
func (s *Sess) genSteer() *Op {
	r := s.rng
	if f := s.steerFollow; f != nil {
		// after a WRITE that failed for lack of space: make the server write
		// that inode again (whatever the failed request left in the cached
		// inode becomes durable now)
		s.steerFollow = nil
		if s.m.Obj(f) != nil {
			return &Op{K: OpSetattr, H: f, SetMtime: 2, Mtime: [2]uint32{uint32(r.U64()), 7}}
		}
	}
	s.srv.WaitIdle()
	free := s.srv.N.VerifFsState().Balloc.NumFree()
	filler := s.m.lookupIn(s.m.Objs[s.m.Root], "filler")
	small := func() *MObj { // a regular file without an indirect block
		var c []*MObj
		for _, o := range s.m.LiveObjs() {
			if o.Kind == KReg && o.FH != nil && o.Size <= 8*BlockSize && o != filler {
				c = append(c, o)
			}
		}
		if len(c) == 0 {
			return nil
		}
		return c[r.Intn(len(c))]
	}
	switch {
	case free > 3 && filler != nil && filler.FH != nil:
		s.nextUid++
		n := uint32(minU64(free-uint64(r.Intn(3)), 60)) * BlockSize
		return &Op{K: OpWrite, H: filler.FH, Off: ((filler.Size + BlockSize - 1) / BlockSize) * BlockSize, Count: n, DataLen: n, Uid: s.nextUid, Stable: 2}
	case free == 0:
		// make a little room again
		if filler != nil && filler.FH != nil && filler.Size > 4*BlockSize && r.Intn(2) == 0 {
			return &Op{K: OpSetattr, H: filler.FH, SetSize: true, Size: filler.Size - uint64(1+r.Intn(3))*BlockSize}
		}
		d := s.m.Objs[s.m.Root]
		if len(d.Ents) > 1 {
			n := s.existingName(d.FH)
			if n != "filler" {
				return &Op{K: OpRemove, H: d.FH, Name: n}
			}
		}
		return s.genOp()
	}
	// 1..3 free blocks: requests that need one block more than there is
	holey := func() *MObj { // a file whose indirect range is (partly) a hole
		var c []*MObj
		for _, o := range s.m.LiveObjs() {
			if o.Kind == KReg && o.FH != nil && o.Size > 9*BlockSize && o != filler {
				c = append(c, o)
			}
		}
		if len(c) == 0 {
			return nil
		}
		return c[r.Intn(len(c))]
	}
	pick := r.Intn(9)
	if free == 1 && r.Intn(2) == 0 {
		pick = 7 // exactly one free block: index block goes in, data block does not
	}
	switch pick {
	case 7, 8: // READ of a hole beyond the direct blocks: index block(s) + data block
		if o := holey(); o != nil {
			off := 8*BlockSize + r.U64()%(o.Size-8*BlockSize)
			return &Op{K: OpRead, H: o.FH, Off: off, Count: r.PickU32([]uint32{1, 4096, 20000})}
		}
		if o := small(); o != nil {
			// make one (the indirect range of the grown file is a hole without an
			// index block) and read from the hole right afterwards
			nb := uint64(9 + r.Intn(1200))
			s.queue = append(s.queue, &Op{K: OpRead, H: o.FH, Off: (8 + r.U64()%(nb-8)) * BlockSize, Count: r.PickU32([]uint32{1, 4096, 20000})})
			return &Op{K: OpSetattr, H: o.FH, SetSize: true, Size: nb * BlockSize}
		}
	case 0, 1: // first write into the indirect range of a small file: indirect block + data block
		if o := small(); o != nil {
			s.nextUid++
			n := r.PickU32([]uint32{1, BlockSize, 3 * BlockSize})
			return &Op{K: OpWrite, H: o.FH, Off: uint64(8+r.Intn(20)) * BlockSize, Count: n, DataLen: n, Uid: s.nextUid, Stable: r.Intn(3)}
		}
	case 2: // double-indirect: three blocks
		if o := small(); o != nil {
			s.nextUid++
			return &Op{K: OpWrite, H: o.FH, Off: uint64(8+512+r.Intn(600)) * BlockSize, Count: 10, DataLen: 10, Uid: s.nextUid, Stable: 2}
		}
	case 3:
		return &Op{K: OpMkdir, H: s.dirHandle(), Name: s.name()}
	case 4:
		return &Op{K: OpSymlink, H: s.dirHandle(), Name: s.name(), Target: longName(1+r.Intn(3*BlockSize), 'T')}
	case 5: // several blocks at once: runs out part-way
		if o := small(); o != nil {
			s.nextUid++
			n := uint32(2+r.Intn(6)) * BlockSize
			return &Op{K: OpWrite, H: o.FH, Off: (o.Size / BlockSize) * BlockSize, Count: n, DataLen: n, Uid: s.nextUid, Stable: r.Intn(3)}
		}
	case 6: // grow by SETATTR, then the hole must be filled by a later read/write
		if o := small(); o != nil {
			return &Op{K: OpSetattr, H: o.FH, SetSize: true, Size: o.Size + uint64(1+r.Intn(12))*BlockSize}
		}
	}
	return s.genOp()
}

// exhaustInodes creates files until the inode table is full, then frees a
// few numbers spread over the table (so that later allocations reuse them and
// the table stays nearly exhausted).
func (s *Sess) exhaustInodes() {
	r := s.exec(&Op{K: OpMkdir, H: s.srv.Root, Name: "many"})
	if r.Stat != stOK {
		return
	}
	dfh := r.FH
	n := 0
	for ; n < 40000; n++ {
		c := doOp(s.srv.API, &Op{K: OpCreate, H: dfh, Name: fmt.Sprintf("i%05d", n)})
		if c.Stat != stOK {
			break
		}
		// keep the reference in step without logging 32 k operations
		s.m.Apply(&Op{K: OpCreate, H: dfh, Name: fmt.Sprintf("i%05d", n)}, c)
	}
	s.res.Stats.Add(fmt.Sprintf("inode-table-filled/%d", n/1000*1000))
	for i := 0; i < n; i += n/40 + 1 {
		s.exec(&Op{K: OpRemove, H: dfh, Name: fmt.Sprintf("i%05d", i)})
	}
}

// bigShrinkStraddle: a file too big to be truncated inside one transaction is
// cut down to a small unaligned size (the background shrinker starts) and,
// right away, written across its new end, grown and read: the bytes between
// the end of that write and the new size were never written and must be zero,
// whatever the shrinker has or has not freed yet.
func (s *Sess) bigShrinkStraddle() bool {
	st := s.srv.N.VerifFsState()
	if st.Balloc.NumFree() < 800 {
		return false
	}
	name := fmt.Sprintf("straddle%d", s.step)
	r := s.exec(&Op{K: OpCreate, H: s.srv.Root, Name: name})
	if r.Stat != stOK {
		return false
	}
	for k := 0; k < 9; k++ {
		s.nextUid++
		n := uint32(64 * BlockSize)
		if w := s.exec(&Op{K: OpWrite, H: r.FH, Off: uint64(k) * uint64(n), Count: n, DataLen: n, Uid: s.nextUid, Stable: 0}); w.Stat != stOK {
			break
		}
	}
	sz := uint64(BlockSize + s.rng.Intn(3*BlockSize))
	s.exec(&Op{K: OpSetattr, H: r.FH, SetSize: true, Size: sz})
	s.nextUid++
	cnt := uint32(200 + s.rng.Intn(3000))
	s.exec(&Op{K: OpWrite, H: r.FH, Off: sz - uint64(1+s.rng.Intn(100)), Count: cnt, DataLen: cnt, Uid: s.nextUid, Stable: s.rng.Intn(3)})
	s.exec(&Op{K: OpSetattr, H: r.FH, SetSize: true, Size: sz + uint64(2+s.rng.Intn(4))*BlockSize + 77})
	s.exec(&Op{K: OpRead, H: r.FH, Off: 0, Count: 65536})
	if s.rng.Intn(2) == 0 {
		s.exec(&Op{K: OpRemove, H: s.srv.Root, Name: name})
	}
	s.res.Stats.Add("big-shrink-then-write-across-the-new-end")
	return true
}

// sparseBurst queues a short script on one file: data up to an index-range
// border, growth by SETATTR over the border (the index range stays a hole),
// truncation below the border, growth again, and a read of the region.
func (s *Sess) sparseBurst() *Op {
	o := s.pickObj(KReg)
	if o == nil {
		return s.genOp()
	}
	r := s.rng
	b := uint64(BlockSize)
	border := uint64(8) // first block of the indirect range
	if r.Intn(3) == 0 && s.p.DiskBlocks >= 8000 {
		border = 8 + 512 // first block of the double-indirect range (reading the hole below it takes ~520 blocks)
	}
	nb := uint64(1 + r.Intn(8))
	s.nextUid++
	first := &Op{K: OpWrite, H: o.FH, Off: (border - nb) * b, Count: uint32(nb * b), DataLen: uint32(nb * b), Uid: s.nextUid, Stable: r.Intn(3)}
	small := (border - nb) * b
	if small > 0 {
		small = r.U64() % (border * b)
	}
	s.queue = append(s.queue,
		&Op{K: OpSetattr, H: o.FH, SetSize: true, Size: (border + uint64(1+r.Intn(40))) * b},
		&Op{K: OpSetattr, H: o.FH, SetSize: true, Size: small},
		&Op{K: OpSetattr, H: o.FH, SetSize: true, Size: (border+2)*b + uint64(r.Intn(5000))},
		&Op{K: OpRead, H: o.FH, Off: (border - 2) * b, Count: 5 * BlockSize},
		&Op{K: OpRead, H: o.FH, Off: 0, Count: 65536},
	)
	return first
}
