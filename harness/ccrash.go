package main

// Concurrent crash engine (C07): several clients, each writing its own file
// with a mix of UNSTABLE / FILE_SYNC writes and COMMITs, run concurrently on
// the recording disk.  For every cut right after an acknowledgement (and for
// sampled write cuts) the recovered contents of every file must be a prefix
// state of that client's own sequence that contains everything that was
// durable at the cut: a client's operation is durable once a stable
// acknowledgement (its own or anybody's: the log is flushed in order) was
// CALLED after that operation had RETURNED and has itself returned before the
// cut.

import (
	"fmt"
	"sync"
)

type CCrashRes struct {
	Viol      []Violation
	Histories int
	Images    int
	NonTrivial int
	Keys      map[string]bool
	Sample    []string
	Overlaps  int // COMMIT/stable acks that overlapped another client's write
}

type ccOp struct {
	client  int
	op      *Op
	stat    uint32
	stable  bool
	callPos int
	retPos  int
}

func runCCrash(seed uint64, cas int, tier string) *CCrashRes {
	res := &CCrashRes{Keys: map[string]bool{}}
	nh := 12
	if tier == "thorough" {
		nh = 60
	}
	for h := 0; h < nh && len(res.Viol) == 0; h++ {
		childLog("ccrash history %d", h)
		oneCCrash(mix(seed, uint64(cas)*1000+uint64(h)), res, h)
	}
	return res
}

func oneCCrash(seed uint64, res *CCrashRes, h int) {
	rng := NewRng(seed)
	viol := func(f string, a ...interface{}) {
		if len(res.Viol) < 8 {
			res.Viol = append(res.Viol, Violation{Class: "crash", Msg: fmt.Sprintf("concurrent history %d: ", h) + fmt.Sprintf(f, a...)})
		}
	}
	unstable := rng.Intn(5) != 0
	d := NewCDisk(16000)
	srv := StartSrv(d, SrvOpts{Unstable: unstable})
	nc := 2 + rng.Intn(3)
	var fhs [][]byte
	for c := 0; c < nc; c++ {
		r := doOp(srv.API, &Op{K: OpCreate, H: srv.Root, Name: fmt.Sprintf("file%d", c)})
		if r.Stat != stOK {
			viol("setup CREATE fails: %d", r.Stat)
			return
		}
		fhs = append(fhs, r.FH)
	}
	srv.Flush()
	d.SetPerturb(rng.U64() | 1)
	// seeded yields at the lock/commit hooks (between append, unlock and wait)
	mon.Reset(rng.U64()|1, true)
	defer mon.Off()
	base := d.StartRecording()
	var mu sync.Mutex
	var all []*ccOp
	perClient := make([][]*ccOp, nc)
	var wg sync.WaitGroup
	for c := 0; c < nc; c++ {
		wg.Add(1)
		cr := rng.Sub(uint64(c) + 5)
		go func(c int, r *Rng) {
			defer wg.Done()
			mon.SetClient(c + 1)
			size := uint64(0)
			uid := uint64(c+1) * 10000
			for i := 0; i < 7; i++ {
				var op *Op
				if r.Intn(10) < 7 {
					uid++
					n := r.PickU32([]uint32{100, 4096, 5000})
					st := 0
					if r.Intn(5) == 0 || (h%2 == 1 && r.Intn(2) == 0) {
						st = 2 // more stable acknowledgements next to the journal-rejected requests
					}
					op = &Op{K: OpWrite, H: fhs[c], Off: size, Count: n, DataLen: n, Uid: uid, Stable: st}
					size += uint64(n)
				} else {
					op = &Op{K: OpCommit, H: fhs[c], Off: 0, Count: 0}
				}
				op.Materialize()
				rec := &ccOp{client: c, op: op}
				mu.Lock()
				all = append(all, rec)
				idx := len(all) - 1
				mu.Unlock()
				rec.callPos = d.Mark(EvCall, idx)
				rr := doOp(srv.API, op)
				rec.retPos = d.Mark(EvRet, idx)
				rec.stat = rr.Stat
				rec.stable = rr.Stat == stOK && (op.K == OpCommit || (op.K == OpWrite && (op.Stable != 0 || !unstable)))
				if op.K == OpWrite && (rr.Stat != stOK || rr.Count != op.Count) {
					mu.Lock()
					viol("WRITE fails: status %d count %d", rr.Stat, rr.Count)
					mu.Unlock()
				}
				mu.Lock()
				perClient[c] = append(perClient[c], rec)
				mu.Unlock()
			}
		}(c, cr)
	}
	stop := make(chan struct{})
	sabDone := make(chan struct{})
	if h%2 == 1 {
		// two clients whose requests the journal rejects as too large, for as
		// long as the others run (go-journal resets its saved flush position
		// when it rejects a transaction)
		var swg sync.WaitGroup
		for k := 0; k < 3; k++ {
			swg.Add(1)
			go func(k int) {
				defer swg.Done()
				target := longName(520*BlockSize+1, 'H')
				for i := 0; ; i++ {
					select {
					case <-stop:
						return
					default:
					}
					doOp(srv.API, &Op{K: OpSymlink, H: srv.Root, Name: fmt.Sprintf("huge%d-%d", k, i), Target: target})
				}
			}(k)
		}
		go func() { swg.Wait(); close(sabDone) }()
	} else {
		close(sabDone)
	}
	wg.Wait()
	close(stop)
	<-sabDone
	trace := d.StopRecording()
	srv.WaitIdle()
	srv.Shutdown()
	res.Histories++
	if len(res.Viol) > 0 {
		return
	}
	// per-client reference states: contents after k of its operations
	states := make([][]string, nc)
	for c := 0; c < nc; c++ {
		o := &MObj{Kind: KReg, Pages: map[uint64][]byte{}}
		states[c] = append(states[c], fmt.Sprintf("%d:%s", o.Size, contentHash(o.Size, func(pg uint64) []byte { return o.Pages[pg] }, nil)))
		for _, rec := range perClient[c] {
			if rec.op.K == OpWrite {
				o.writeAt(rec.op.Off, rec.op.Data)
			}
			states[c] = append(states[c], fmt.Sprintf("%d:%s", o.Size, contentHash(o.Size, func(pg uint64) []byte { return o.Pages[pg] }, nil)))
		}
	}
	// stable acks that overlapped somebody else's write (the interesting case)
	for _, a := range all {
		if !a.stable {
			continue
		}
		for _, b := range all {
			if b.client != a.client && b.op.K == OpWrite && b.callPos < a.retPos && a.callPos < b.retPos {
				res.Overlaps++
				break
			}
		}
	}
	// cuts
	it := NewCutIter(16000, base, trace)
	nw := 0
	for {
		e, ok := it.Step()
		if !ok || len(res.Viol) > 0 {
			break
		}
		take := false
		desc := ""
		switch e.Kind {
		case EvRet:
			if all[e.Addr].stable {
				take = true
				desc = fmt.Sprintf("cut %d right after the acknowledgement of %s by client %d", it.pos, all[e.Addr].op.K, all[e.Addr].client)
			}
		case EvWrite:
			nw++
			if nw%7 == 0 {
				take = true
				desc = fmt.Sprintf("cut %d after write of block %d", it.pos, e.Addr)
			}
		}
		if !take {
			continue
		}
		cut := it.pos - 1 // index of the last event applied
		// durable operations at the cut
		lo := make([]int, nc)
		hi := make([]int, nc)
		for _, st := range all {
			if !(st.stable && st.retPos <= cut) {
				continue
			}
			for c := 0; c < nc; c++ {
				for k, rec := range perClient[c] {
					if rec == st || rec.retPos < st.callPos {
						if k+1 > lo[c] {
							lo[c] = k + 1
						}
					}
				}
			}
		}
		for c := 0; c < nc; c++ {
			for k, rec := range perClient[c] {
				if rec.callPos <= cut {
					hi[c] = k + 1
				}
			}
		}
		got, errmsg := recoverFiles(it.PrefixImage(), nc, unstable)
		res.Images++
		if errmsg != "" {
			viol("%s: %s", desc, errmsg)
			continue
		}
		nontriv := false
		for c := 0; c < nc; c++ {
			found := false
			for j := lo[c]; j <= hi[c]; j++ {
				if states[c][j] == got[c] {
					found = true
				}
			}
			if lo[c] < hi[c] {
				nontriv = true
			}
			if !found {
				var ops []string
				for k, rec := range perClient[c] {
					ops = append(ops, fmt.Sprintf("[%d call@%d ret@%d] %s => %d stable=%v", k, rec.callPos, rec.retPos, rec.op, rec.stat, rec.stable))
				}
				viol("%s: file of client %d recovered as (size:hash) %s, which is none of its states %d..%d (state %d = everything durable at the cut: covered by a stable acknowledgement that was called after it returned) %v\nits operations:\n%s", desc, c, got[c], lo[c], hi[c], lo[c], states[c][lo[c]:hi[c]+1], joinLines(ops))
			}
		}
		if nontriv {
			res.NonTrivial++
			res.Keys[fmt.Sprint(lo, hi)] = true
		}
	}
	if len(res.Sample) == 0 {
		for _, rec := range all[:minInt(len(all), 10)] {
			res.Sample = append(res.Sample, fmt.Sprintf("client %d %s => %d", rec.client, rec.op, rec.stat))
		}
	}
}

func recoverFiles(img map[uint64][]byte, nc int, unstable bool) (got []string, errmsg string) {
	defer func() {
		if e := recover(); e != nil {
			errmsg = fmt.Sprintf("panic while recovering: %v", e)
		}
	}()
	d := NewCDiskFrom(16000, img)
	srv := StartSrv(d, SrvOpts{Unstable: unstable})
	defer srv.Shutdown()
	for c := 0; c < nc; c++ {
		lk := doOp(srv.API, &Op{K: OpLookup, H: srv.Root, Name: fmt.Sprintf("file%d", c)})
		if lk.Stat != stOK {
			return nil, fmt.Sprintf("file%d is gone after recovery (status %d)", c, lk.Stat)
		}
		w := &WalkErr{}
		data := readFile(srv.API, lk.FH, lk.Size, nil, w, fmt.Sprintf("file%d", c))
		if len(w.Msgs) > 0 {
			return nil, w.Msgs[0]
		}
		got = append(got, fmt.Sprintf("%d:%s", lk.Size, contentHash(lk.Size, func(pg uint64) []byte { return data[pg] }, nil)))
	}
	return got, ""
}
