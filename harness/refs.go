package main

// Reference file system (DESIGN §2.2): a plain in-memory tree with a
// deterministic Apply.  Replies are compared on success/failure, on the exact
// status only where a property names it (STALE for dead handles, NOTSUPP for
// unsupported procedures), and on everything a client can observe of a
// successful reply.

import (
	"bytes"
	"crypto/sha256"
	"encoding/hex"
	"fmt"
	"sort"
	"strings"
)

type OpKind int

const (
	OpGetattr OpKind = iota
	OpSetattr
	OpLookup
	OpAccess
	OpReadlink
	OpRead
	OpWrite
	OpCreate
	OpMkdir
	OpSymlink
	OpMknod
	OpRemove
	OpRmdir
	OpRename
	OpLink
	OpReaddir
	OpReaddirplus
	OpFsstat
	OpFsinfo
	OpPathconf
	OpCommit
	OpNull
	OpRestart // pseudo-op: clean shutdown + restart
	NumOpKinds
)

var opNames = []string{"GETATTR", "SETATTR", "LOOKUP", "ACCESS", "READLINK", "READ", "WRITE", "CREATE", "MKDIR", "SYMLINK", "MKNOD", "REMOVE", "RMDIR", "RENAME", "LINK", "READDIR", "READDIRPLUS", "FSSTAT", "FSINFO", "PATHCONF", "COMMIT", "NULL", "RESTART"}

func (k OpKind) String() string { return opNames[k] }

const (
	KReg = 1
	KDir = 2
	KLnk = 5
)

// NFS status codes used by name
const (
	stOK          = 0
	stNOENT       = 2
	stIO          = 5
	stEXIST       = 17
	stNOTDIR      = 20
	stISDIR       = 21
	stINVAL       = 22
	stFBIG        = 27
	stNOSPC       = 28
	stNAMETOOLONG = 63
	stNOTEMPTY    = 66
	stSTALE       = 70
	stNOTSUPP     = 10004
	stSERVERFAULT = 10006
)

type Op struct {
	K      OpKind
	H      []byte `json:",omitempty"` // object or directory handle
	H2     []byte `json:",omitempty"` // target directory (RENAME), LINK dir
	Name   string `json:",omitempty"`
	Name2  string `json:",omitempty"`
	Target string `json:",omitempty"` // SYMLINK
	Off    uint64 `json:",omitempty"`
	Count  uint32 `json:",omitempty"`
	// WRITE: the bytes are Pattern(Uid, Off+i) for i < DataLen (never stored in
	// replay files); DataLen may differ from Count in hostile requests
	DataLen  uint32 `json:",omitempty"`
	Uid      uint64 `json:",omitempty"`
	Stable   int    `json:",omitempty"`
	SetSize  bool   `json:",omitempty"`
	Size     uint64 `json:",omitempty"`
	Guard    bool   `json:",omitempty"` // SETATTR: guard.check = TRUE with a ctime that does not match
	SetAtime int    `json:",omitempty"` // 0 don't, 1 server time, 2 client time
	SetMtime int    `json:",omitempty"`
	Atime    [2]uint32
	Mtime    [2]uint32
	Cookie   uint64 `json:",omitempty"`
	Dircount uint32 `json:",omitempty"`
	Mode     int    `json:",omitempty"` // CREATE mode
	SetPerm  bool   `json:",omitempty"` // sattr3.mode
	Perm     uint32 `json:",omitempty"`
	SetIDs   bool   `json:",omitempty"` // sattr3.uid / gid
	UidV     uint32 `json:",omitempty"`
	GidV     uint32 `json:",omitempty"`
	Data     []byte `json:"-"`          // materialised WRITE data
}

func (o *Op) String() string {
	s := o.K.String()
	if o.H != nil {
		s += " h=" + hex.EncodeToString(o.H)
	}
	if o.K == OpRename {
		s += " " + shortName(o.Name) + " -> h2=" + hex.EncodeToString(o.H2) + " " + shortName(o.Name2)
	} else if o.Name != "" || o.K == OpLookup || o.K == OpCreate || o.K == OpRemove {
		s += " " + shortName(o.Name)
	}
	switch o.K {
	case OpRead:
		s += fmt.Sprintf(" off=%d count=%d", o.Off, o.Count)
	case OpWrite:
		s += fmt.Sprintf(" off=%d count=%d datalen=%d stable=%d uid=%d", o.Off, o.Count, o.DataLen, o.Stable, o.Uid)
	case OpSetattr:
		if o.SetSize {
			s += fmt.Sprintf(" size=%d", o.Size)
		}
		if o.SetPerm {
			s += fmt.Sprintf(" perm=%o", o.Perm)
		}
		if o.SetIDs {
			s += fmt.Sprintf(" uid=%d gid=%d", o.UidV, o.GidV)
		}
		if o.SetAtime != 0 || o.SetMtime != 0 {
			s += fmt.Sprintf(" atime=%d/%v mtime=%d/%v", o.SetAtime, o.Atime, o.SetMtime, o.Mtime)
		}
	case OpSymlink:
		s += " target=" + shortName(o.Target)
	case OpReaddir, OpReaddirplus:
		s += fmt.Sprintf(" cookie=%d count=%d dircount=%d", o.Cookie, o.Count, o.Dircount)
	case OpCommit:
		s += fmt.Sprintf(" off=%d count=%d", o.Off, o.Count)
	case OpCreate:
		s += fmt.Sprintf(" mode=%d", o.Mode)
		if o.SetSize {
			s += fmt.Sprintf(" size=%d", o.Size)
		}
		if o.SetAtime != 0 || o.SetMtime != 0 {
			s += fmt.Sprintf(" atime=%d/%v mtime=%d/%v", o.SetAtime, o.Atime, o.SetMtime, o.Mtime)
		}
		if o.SetPerm {
			s += fmt.Sprintf(" perm=%o", o.Perm)
		}
	}
	return s
}

// Pattern is the byte written at absolute offset off of a write with id uid:
// a foreign byte identifies its source.
func Pattern(uid, off uint64) byte {
	x := uid*0x9E3779B97F4A7C15 + off*0xC2B2AE3D27D4EB4F
	x ^= x >> 29
	b := byte(x>>7) | 1 // never zero: zeros always mean "not written"
	return b
}

func (o *Op) Materialize() {
	if o.K == OpWrite && o.Data == nil {
		o.Data = make([]byte, o.DataLen)
		for i := range o.Data {
			o.Data[i] = Pattern(o.Uid, o.Off+uint64(i))
		}
	}
}

type Ent struct {
	Name    string
	Fileid  uint64
	Cookie  uint64
	HasAttr bool
	Ftype   uint32
	Size    uint64
	AFileid uint64
	HasFH   bool
	FH      []byte
}

// Res is a normalised reply.
type Res struct {
	Stat      uint32
	FH        []byte
	HasAttr   bool
	Ftype     uint32
	Size      uint64
	Fileid    uint64
	Nlink     uint32
	Attrs     string // the remaining attribute fields (mode, nlink, uid, gid, rdev, fsid, ctime) for live-vs-restart comparison
	Atime     [2]uint32
	Mtime     [2]uint32
	Data      []byte
	Eof       bool
	Count     uint32
	Committed int
	Verf      [8]byte
	Target    string
	Ents      []Ent
	// FSINFO / PATHCONF
	Rtmax, Wtmax, Wtpref uint32
	Maxfilesize          uint64
	NameMax              uint32
	NoTrunc              bool
}

type MObj struct {
	ID     int
	Kind   int
	Size   uint64
	Pages  map[uint64][]byte // files: 4096-byte pages; missing = zeros
	Target string
	Ents   map[string]int // directories (without "." and "..")
	Parent int            // directories
	Live   bool
	FH     []byte // nil if not known (created by a predicted op)
	Fileid uint64
	AtimeC bool // client-set
	Atime  [2]uint32
	MtimeC bool
	Mtime  [2]uint32
}

type Limits struct {
	NameMax     int
	WtMax       uint64
	RtMax       uint64
	MaxFileSize uint64
}

type Model struct {
	Objs   map[int]*MObj
	Root   int
	next   int
	byFH   map[string]int // every handle ever issued (live or dead)
	Lim    Limits
	// AllowNoSpc: allocating operations may fail for lack of space/journal
	// room and WRITE may be short; the model follows the reply.
	AllowNoSpc bool
	// ForceSync: the server runs with its unstable option off: every WRITE is FILE_SYNC
	ForceSync bool
	// SubRoot: the reference covers only the subtree below one directory
	// (its "root"); the parent of that directory is outside
	SubRoot bool
	// statistics
	NoSpcFollowed int
	liveCache     []*MObj // sorted live objects; dropped whenever an object is created or dies
}

func NewModel(rootFH []byte, lim Limits) *Model {
	m := &Model{Objs: map[int]*MObj{}, byFH: map[string]int{}, Lim: lim}
	r := &MObj{ID: 1, Kind: KDir, Ents: map[string]int{}, Parent: 1, Live: true, FH: rootFH, Fileid: 1}
	m.Objs[1] = r
	m.Root = 1
	m.next = 2
	m.byFH[string(rootFH)] = 1
	return m
}

// Clone makes a deep copy (pages are shared copy-on-write: writers replace
// page slices, never mutate them).
func (m *Model) Clone() *Model {
	n := &Model{Objs: make(map[int]*MObj, len(m.Objs)), Root: m.Root, next: m.next, byFH: make(map[string]int, len(m.byFH)), Lim: m.Lim, AllowNoSpc: m.AllowNoSpc, ForceSync: m.ForceSync, SubRoot: m.SubRoot}
	for id, o := range m.Objs {
		c := *o
		if o.Pages != nil {
			c.Pages = make(map[uint64][]byte, len(o.Pages))
			for k, v := range o.Pages {
				c.Pages[k] = v
			}
		}
		if o.Ents != nil {
			c.Ents = make(map[string]int, len(o.Ents))
			for k, v := range o.Ents {
				c.Ents[k] = v
			}
		}
		n.Objs[id] = &c
	}
	for k, v := range m.byFH {
		n.byFH[k] = v
	}
	return n
}

func (m *Model) Obj(fh []byte) *MObj {
	id, ok := m.byFH[string(fh)]
	if !ok {
		return nil
	}
	o := m.Objs[id]
	if o == nil || !o.Live {
		return nil
	}
	return o
}

// Known reports whether the handle was ever issued.
func (m *Model) Known(fh []byte) bool { _, ok := m.byFH[string(fh)]; return ok }

func (m *Model) LiveObjs() []*MObj {
	if m.liveCache != nil {
		return m.liveCache
	}
	var r []*MObj
	for _, o := range m.Objs {
		if o.Live {
			r = append(r, o)
		}
	}
	sort.Slice(r, func(i, j int) bool { return r[i].ID < r[j].ID })
	m.liveCache = r
	return r
}

func (m *Model) DeadFHs() [][]byte {
	var r [][]byte
	ids := make([]int, 0)
	for _, o := range m.Objs {
		if !o.Live && o.FH != nil {
			ids = append(ids, o.ID)
		}
	}
	sort.Ints(ids)
	for _, id := range ids {
		r = append(r, m.Objs[id].FH)
	}
	return r
}

func (o *MObj) readAt(off, n uint64) []byte {
	out := make([]byte, n)
	for i := uint64(0); i < n; {
		pg := (off + i) / BlockSize
		po := (off + i) % BlockSize
		k := minU64(BlockSize-po, n-i)
		if p, ok := o.Pages[pg]; ok {
			copy(out[i:i+k], p[po:po+k])
		}
		i += k
	}
	return out
}

func (o *MObj) writeAt(off uint64, data []byte) {
	n := uint64(len(data))
	for i := uint64(0); i < n; {
		pg := (off + i) / BlockSize
		po := (off + i) % BlockSize
		k := minU64(BlockSize-po, n-i)
		np := make([]byte, BlockSize)
		if p, ok := o.Pages[pg]; ok {
			copy(np, p)
		}
		copy(np[po:po+k], data[i:i+k])
		o.Pages[pg] = np
		i += k
	}
	if off+n > o.Size {
		o.Size = off + n
	}
}

func (o *MObj) truncate(sz uint64) {
	if sz < o.Size {
		for pg := range o.Pages {
			if pg*BlockSize >= sz {
				delete(o.Pages, pg)
			}
		}
		if sz%BlockSize != 0 {
			pg := sz / BlockSize
			if p, ok := o.Pages[pg]; ok {
				np := make([]byte, BlockSize)
				copy(np, p[:sz%BlockSize])
				o.Pages[pg] = np
			}
		}
	}
	o.Size = sz
}

func (m *Model) legalNewName(name string) bool {
	return name != "" && name != "." && name != ".." && len(name) <= m.Lim.NameMax
}

func (m *Model) lookupIn(d *MObj, name string) *MObj {
	if d.Kind != KDir {
		return nil
	}
	switch name {
	case ".":
		return d
	case "..":
		return m.Objs[d.Parent]
	}
	id, ok := d.Ents[name]
	if !ok {
		return nil
	}
	return m.Objs[id]
}

func (m *Model) kill(o *MObj) {
	m.liveCache = nil
	o.Live = false
	o.Pages = nil
}

func (m *Model) newObj(kind int, parent *MObj, name string) *MObj {
	m.liveCache = nil
	o := &MObj{ID: m.next, Kind: kind, Live: true}
	m.next++
	switch kind {
	case KReg:
		o.Pages = map[uint64][]byte{}
	case KDir:
		o.Ents = map[string]int{}
		o.Parent = parent.ID
	}
	m.Objs[o.ID] = o
	parent.Ents[name] = o.ID
	return o
}

// isAncestor reports whether a is d or an ancestor of d.
func (m *Model) isAncestor(a, d *MObj) bool {
	for x := d; ; x = m.Objs[x.Parent] {
		if x.ID == a.ID {
			return true
		}
		if x.ID == m.Root {
			return false
		}
	}
}

// expectation for the status of a reply
const (
	expOK      = iota // must succeed
	expFail           // must fail (any error status)
	expStale          // must fail with NFS3ERR_STALE
	expNotsupp        // must fail with NFS3ERR_NOTSUPP
	expEither         // the reference leaves it to the server; follow the reply
)

func expName(e int) string {
	return []string{"success", "failure", "NFS3ERR_STALE", "NFS3ERR_NOTSUPP", "either"}[e]
}

func noSpcStatus(st uint32) bool {
	return st == stNOSPC || st == stIO || st == stSERVERFAULT
}

type Diff struct {
	Msgs []string
}

func (d *Diff) add(f string, a ...interface{}) { d.Msgs = append(d.Msgs, fmt.Sprintf(f, a...)) }
func (d *Diff) Bad() bool                      { return len(d.Msgs) > 0 }

func (m *Model) checkAttr(d *Diff, what string, o *MObj, r *Res) {
	if !r.HasAttr {
		return
	}
	if int(r.Ftype) != o.Kind {
		d.add("%s: attributes type %d, reference %d", what, r.Ftype, o.Kind)
	}
	if o.Kind != KDir && r.Size != o.Size {
		d.add("%s: attributes size %d, reference %d", what, r.Size, o.Size)
	}
	if o.Fileid != 0 && r.Fileid != o.Fileid {
		d.add("%s: attributes fileid %d, object was created with fileid %d", what, r.Fileid, o.Fileid)
	}
	if o.AtimeC && r.Atime != o.Atime {
		d.add("%s: atime %v, client set %v", what, r.Atime, o.Atime)
	}
	if o.MtimeC && r.Mtime != o.Mtime {
		d.add("%s: mtime %v, client set %v", what, r.Mtime, o.Mtime)
	}
}

// bindNew binds the handle of a freshly created/looked-up object.
func (m *Model) bind(d *Diff, what string, o *MObj, fh []byte, fileid uint64, hasAttr bool) {
	if fh == nil {
		return
	}
	if id, ok := m.byFH[string(fh)]; ok && id != o.ID {
		other := m.Objs[id]
		state := "dead"
		if other != nil && other.Live {
			state = "live"
		}
		d.add("%s: handle %x was already issued for a different (%s) object #%d", what, fh, state, id)
		return
	}
	if o.FH == nil {
		o.FH = append([]byte(nil), fh...)
		m.byFH[string(fh)] = o.ID
	} else if !bytes.Equal(o.FH, fh) {
		d.add("%s: handle %x differs from the handle %x issued earlier for the same object", what, fh, o.FH)
	}
	if hasAttr {
		if o.Fileid == 0 {
			o.Fileid = fileid
		}
	}
}

// Apply checks reply r of op against the reference and advances the
// reference.  r == nil means "predict": the operation is assumed to have had
// the effect the reference gives it (used for operations in flight at a
// crash).
func (m *Model) Apply(op *Op, r *Res) *Diff {
	d := &Diff{}
	exp, eff := m.expect(op)
	if r == nil {
		if exp == expOK {
			eff(nil, d)
		}
		return &Diff{}
	}
	ok := r.Stat == stOK
	switch exp {
	case expOK:
		if !ok {
			if m.AllowNoSpc && noSpcStatus(r.Stat) && allocating(op) {
				m.NoSpcFollowed++
				return d
			}
			d.add("%s: status %d, reference says it succeeds", op.K, r.Stat)
			return d
		}
		eff(r, d)
	case expFail:
		if ok {
			d.add("%s: succeeded, reference says it cannot be performed", op.K)
		}
	case expStale:
		if r.Stat != stSTALE {
			d.add("%s: status %d for a dead or unknown handle, want NFS3ERR_STALE", op.K, r.Stat)
		}
	case expNotsupp:
		if r.Stat != stNOTSUPP {
			d.add("%s: status %d, want NFS3ERR_NOTSUPP", op.K, r.Stat)
		}
	case expEither:
		if ok {
			eff(r, d)
		}
	}
	return d
}

func allocating(op *Op) bool {
	switch op.K {
	case OpCreate, OpMkdir, OpSymlink, OpWrite, OpRename, OpRead, OpSetattr, OpReaddir, OpReaddirplus, OpLookup, OpRemove, OpRmdir:
		// READ and directory scans fill holes; SETATTR may grow; REMOVE frees
		// through a transaction that can exceed the journal
		return true
	}
	return false
}

type effect func(r *Res, d *Diff)

func nop(r *Res, d *Diff) {}

// expect returns the expected outcome class of op in the current state and
// the effect to apply on success (which also checks the successful reply).
func (m *Model) expect(op *Op) (int, effect) {
	switch op.K {
	case OpNull:
		return expOK, nop
	case OpMknod, OpLink, OpFsstat:
		return expNotsupp, nop
	case OpCreate:
		if op.Mode == 2 { // EXCLUSIVE
			return expNotsupp, nop
		}
	}
	o := m.Obj(op.H)
	if o == nil {
		if (op.K == OpRemove || op.K == OpRmdir || op.K == OpRename) && (op.Name == "." || op.Name == ".." || op.Name2 == "." || op.Name2 == "..") {
			// two independent errors (illegal name, dead handle): any error
			return expFail, nop
		}
		return expStale, nop
	}
	switch op.K {
	case OpGetattr:
		return expOK, func(r *Res, d *Diff) {
			if r != nil {
				if !r.HasAttr {
					d.add("GETATTR: no attributes")
				}
				m.checkAttr(d, "GETATTR", o, r)
			}
		}
	case OpAccess, OpFsinfo, OpPathconf:
		return expOK, nop
	case OpSetattr:
		if op.SetSize {
			if o.Kind != KReg || op.Size > m.Lim.MaxFileSize {
				return expFail, nop
			}
		}
		if op.Guard {
			// a guard that does not match: refused without effect (NOT_SYNC), or
			// ignored (this server) - in which case the request applies as usual
			return expEither, func(r *Res, d *Diff) {
				if r != nil && r.Stat != stOK {
					return
				}
				plain := *op
				plain.Guard = false
				_, eff := m.expect(&plain)
				eff(r, d)
			}
		}
		return expOK, func(r *Res, d *Diff) {
			if op.SetSize {
				o.truncate(op.Size)
			}
			if op.SetAtime == 2 {
				o.AtimeC, o.Atime = true, op.Atime
			} else if op.SetAtime != 0 {
				o.AtimeC = false // server time (also for values outside the enumeration)
			}
			if op.SetMtime == 2 {
				o.MtimeC, o.Mtime = true, op.Mtime
			} else if op.SetMtime != 0 {
				o.MtimeC = false
			}
			if r != nil {
				m.checkAttr(d, "SETATTR", o, r)
			}
		}
	case OpLookup:
		if m.SubRoot && o.ID == m.Root && op.Name == ".." && o.Kind == KDir {
			return expOK, nop // the reference covers a subtree: its parent is outside
		}
		t := m.lookupIn(o, op.Name)
		if t == nil {
			return expFail, nop
		}
		return expOK, func(r *Res, d *Diff) {
			if r != nil {
				m.bind(d, "LOOKUP "+shortName(op.Name), t, r.FH, r.Fileid, r.HasAttr)
				m.checkAttr(d, "LOOKUP", t, r)
			}
		}
	case OpReadlink:
		if o.Kind != KLnk {
			return expFail, nop
		}
		return expOK, func(r *Res, d *Diff) {
			if r != nil && r.Target != o.Target {
				d.add("READLINK: %q, reference %q", r.Target, o.Target)
			}
		}
	case OpRead:
		if o.Kind != KReg {
			return expFail, nop
		}
		return expOK, func(r *Res, d *Diff) {
			if r != nil {
				m.checkRead(d, o, op, r)
			}
		}
	case OpWrite:
		if o.Kind != KReg || uint64(op.Count) > m.Lim.WtMax || op.Count > op.DataLen ||
			op.Off+uint64(op.Count) < op.Off || op.Off+uint64(op.Count) > m.Lim.MaxFileSize {
			return expFail, nop
		}
		return expOK, func(r *Res, d *Diff) {
			n := uint64(op.Count)
			if r != nil {
				if uint64(r.Count) != n {
					if m.AllowNoSpc && uint64(r.Count) < n {
						n = uint64(r.Count)
						m.NoSpcFollowed++
					} else {
						d.add("WRITE: count %d, requested %d", r.Count, op.Count)
					}
				}
			}
			op.Materialize()
			if n > 0 {
				o.writeAt(op.Off, op.Data[:n])
			}
			if r != nil {
				m.checkAttr(d, "WRITE", o, r)
				want := op.Stable
				if want < 0 || want > 2 {
					want = 0
				}
				if m.ForceSync {
					want = 2
				}
				if r.Committed < want || r.Committed > 2 {
					d.add("WRITE: committed level %d, requested/required %d", r.Committed, want)
				}
			}
		}
	case OpCreate, OpMkdir, OpSymlink:
		if o.Kind != KDir || !m.legalNewName(op.Name) || m.lookupIn(o, op.Name) != nil {
			return expFail, nop
		}
		if op.K == OpCreate && (op.Mode < 0 || op.Mode > 2) {
			return expEither, m.createEffect(op, o)
		}
		if op.K == OpSymlink && len(op.Target) > 300*BlockSize {
			// a target that cannot fit one journal transaction: the server may refuse it
			return expEither, m.createEffect(op, o)
		}
		return expOK, m.createEffect(op, o)
	case OpRemove, OpRmdir:
		if o.Kind != KDir || op.Name == "." || op.Name == ".." {
			return expFail, nop
		}
		t := m.lookupIn(o, op.Name)
		if t == nil {
			return expFail, nop
		}
		if op.K == OpRmdir && t.Kind != KDir {
			return expFail, nop
		}
		if t.Kind == KDir && len(t.Ents) > 0 {
			return expFail, nop
		}
		e := func(r *Res, d *Diff) {
			delete(o.Ents, op.Name)
			m.kill(t)
		}
		if op.K == OpRemove && t.Kind == KDir {
			// RFC 1813 lets the server refuse or accept REMOVE of a directory
			return expEither, e
		}
		return expOK, e
	case OpRename:
		td := m.Obj(op.H2)
		if td == nil {
			if op.Name == "." || op.Name == ".." || op.Name2 == "." || op.Name2 == ".." {
				return expFail, nop
			}
			return expStale, nop
		}
		if o.Kind != KDir || td.Kind != KDir {
			return expFail, nop
		}
		if op.Name == "." || op.Name == ".." || op.Name2 == "." || op.Name2 == ".." {
			return expFail, nop
		}
		src := m.lookupIn(o, op.Name)
		if src == nil {
			return expFail, nop
		}
		dst := m.lookupIn(td, op.Name2)
		if dst != nil && dst.ID == src.ID {
			return expOK, nop
		}
		if !m.legalNewName(op.Name2) {
			return expFail, nop
		}
		if src.Kind == KDir && m.isAncestor(src, td) {
			return expFail, nop
		}
		if dst != nil {
			if dst.Kind != src.Kind {
				return expFail, nop
			}
			if dst.Kind == KDir && len(dst.Ents) > 0 {
				return expFail, nop
			}
		}
		return expOK, func(r *Res, d *Diff) {
			if dst != nil {
				m.kill(dst)
			}
			delete(o.Ents, op.Name)
			td.Ents[op.Name2] = src.ID
			if src.Kind == KDir {
				src.Parent = td.ID
			}
		}
	case OpReaddir, OpReaddirplus:
		if o.Kind != KDir {
			return expFail, nop
		}
		return expOK, func(r *Res, d *Diff) {
			if r != nil {
				m.checkPage(d, o, op, r)
			}
		}
	case OpCommit:
		if o.Kind != KReg {
			return expFail, nop
		}
		if op.Off+uint64(op.Count) > o.Size || op.Off+uint64(op.Count) < op.Off {
			return expEither, nop
		}
		return expOK, nop
	}
	return expEither, nop
}

func (m *Model) createEffect(op *Op, dir *MObj) effect {
	return func(r *Res, d *Diff) {
		kind := KReg
		if op.K == OpMkdir {
			kind = KDir
		} else if op.K == OpSymlink {
			kind = KLnk
		}
		n := m.newObj(kind, dir, op.Name)
		if kind == KLnk {
			n.Target = op.Target
			n.Size = uint64(len(op.Target))
		}
		if op.K == OpCreate && op.SetSize && r != nil && r.HasAttr {
			// an initial size in CREATE may be honoured or ignored (this server
			// ignores it); it may never exceed the announced maximum
			switch {
			case r.Size == 0:
			case r.Size == op.Size && op.Size <= m.Lim.MaxFileSize:
				n.truncate(op.Size)
			default:
				d.add("CREATE with initial size %d: the new file has size %d (announced maxfilesize %d)", op.Size, r.Size, m.Lim.MaxFileSize)
			}
		}
		if r != nil && r.HasAttr && op.K != OpSetattr {
			// initial times in a creation may be honoured or ignored (this server
			// ignores them); if the reply shows the client's value it has been
			// honoured and must stay (later GETATTRs, restarts)
			if op.SetAtime == 2 && r.Atime == op.Atime {
				n.AtimeC, n.Atime = true, op.Atime
			}
			if op.SetMtime == 2 && r.Mtime == op.Mtime {
				n.MtimeC, n.Mtime = true, op.Mtime
			}
		}
		if r != nil {
			what := op.K.String() + " " + shortName(op.Name)
			if r.FH == nil {
				d.add("%s: no handle in the reply", what)
			}
			m.bind(d, what, n, r.FH, r.Fileid, r.HasAttr)
			m.checkAttr(d, what, n, r)
		}
	}
}

func (m *Model) checkRead(d *Diff, o *MObj, op *Op, r *Res) {
	got := uint64(len(r.Data))
	if uint64(r.Count) != got {
		d.add("READ: count %d but %d data bytes", r.Count, got)
	}
	if op.Off >= o.Size {
		if got != 0 || !r.Eof {
			d.add("READ at/after end of file (size %d, off %d): %d bytes eof=%v, want 0 bytes and eof", o.Size, op.Off, got, r.Eof)
		}
		return
	}
	avail := o.Size - op.Off
	if got > avail || got > uint64(op.Count) {
		d.add("READ: %d bytes returned, only %d available / %d requested", got, avail, op.Count)
		return
	}
	want := o.readAt(op.Off, got)
	if !bytes.Equal(want, r.Data) {
		i := 0
		for i < len(want) && want[i] == r.Data[i] {
			i++
		}
		d.add("READ off=%d: byte at file offset %d is %#x, reference %#x (%d bytes compared)", op.Off, op.Off+uint64(i), r.Data[i], want[i], got)
	}
	full := minU64(uint64(op.Count), avail)
	if got < full {
		if got == 0 && op.Count > 0 {
			if !m.AllowNoSpc {
				d.add("READ: no data although %d bytes are available", avail)
			}
		} else if uint64(op.Count) <= m.Lim.RtMax && !m.AllowNoSpc {
			d.add("READ: short read %d of %d (count <= rtmax)", got, full)
		}
	}
	reaches := op.Off+got >= o.Size
	if r.Eof && !reaches {
		d.add("READ: eof set but reply ends at %d of %d", op.Off+got, o.Size)
	}
}

// checkPage checks one READDIR/READDIRPLUS page (sequential use): every entry
// must exist in the reference with the right object; completeness is checked
// by the enumeration monitor, not per page.
func (m *Model) checkPage(d *Diff, o *MObj, op *Op, r *Res) {
	seen := map[string]bool{}
	for _, e := range r.Ents {
		if seen[e.Name] {
			d.add("%s: name %s twice in one page", op.K, shortName(e.Name))
		}
		seen[e.Name] = true
		if m.SubRoot && o.ID == m.Root && e.Name == ".." {
			continue // the parent is outside the reference
		}
		t := m.lookupIn(o, e.Name)
		if t == nil {
			d.add("%s: entry %s is not in the reference directory", op.K, shortName(e.Name))
			continue
		}
		if t.Fileid != 0 && e.Fileid != t.Fileid {
			d.add("%s: entry %s fileid %d, object has %d", op.K, shortName(e.Name), e.Fileid, t.Fileid)
		}
		if e.HasFH {
			m.bind(d, op.K.String()+" entry "+shortName(e.Name), t, e.FH, e.AFileid, e.HasAttr)
		}
		if e.HasAttr {
			rr := &Res{HasAttr: true, Ftype: e.Ftype, Size: e.Size, Fileid: e.AFileid, Atime: t.Atime, Mtime: t.Mtime}
			m.checkAttr(d, op.K.String()+" entry "+shortName(e.Name), t, rr)
		}
	}
}

// ---------------------------------------------------------------------------
// canonical dump

const fullReadCap = 24 << 20

func contentHash(size uint64, page func(pg uint64) []byte, present []uint64) string {
	h := sha256.New()
	if size <= fullReadCap {
		// hash of the non-zero pages (index + bytes up to size)
		npg := (size + BlockSize - 1) / BlockSize
		for pg := uint64(0); pg < npg; pg++ {
			p := page(pg)
			if p == nil {
				continue
			}
			n := minU64(BlockSize, size-pg*BlockSize)
			if allZero(p[:n]) {
				continue
			}
			fmt.Fprintf(h, "%d:", pg)
			h.Write(p[:n])
		}
	} else {
		for _, pg := range present {
			if pg*BlockSize >= size {
				continue
			}
			p := page(pg)
			n := minU64(BlockSize, size-pg*BlockSize)
			if p == nil || allZero(p[:n]) {
				continue
			}
			fmt.Fprintf(h, "%d:", pg)
			h.Write(p[:n])
		}
	}
	return hex.EncodeToString(h.Sum(nil)[:8])
}

func allZero(b []byte) bool {
	for _, x := range b {
		if x != 0 {
			return false
		}
	}
	return true
}

// probePages lists the pages of a large file that both sides look at: the
// pages the reference has data in, their neighbours, and the first/last pages.
func (o *MObj) probePages() []uint64 {
	set := map[uint64]bool{}
	npg := (o.Size + BlockSize - 1) / BlockSize
	add := func(pg uint64) {
		if pg < npg {
			set[pg] = true
		}
	}
	for pg := range o.Pages {
		add(pg)
		add(pg + 1)
		if pg > 0 {
			add(pg - 1)
		}
	}
	add(0)
	if npg > 0 {
		add(npg - 1)
	}
	r := make([]uint64, 0, len(set))
	for pg := range set {
		r = append(r, pg)
	}
	sortU64(r)
	return r
}

type DumpEnt struct {
	Path   string
	Kind   int
	Size   uint64
	Hash   string
	Target string
	FH     []byte
	Fileid uint64
	Atime  [2]uint32
	Mtime  [2]uint32
	Attrs  string // mode, nlink, uid, gid, rdev, fsid, ctime as the server reports them (not predicted; compared live vs restart)
	List   string // directories: names, file ids and cookies in listing order
}

func (e DumpEnt) line() string {
	switch e.Kind {
	case KDir:
		return "D " + e.Path
	case KLnk:
		return fmt.Sprintf("L %s -> %q", e.Path, e.Target)
	}
	return fmt.Sprintf("F %s size=%d data=%s", e.Path, e.Size, e.Hash)
}

func (m *Model) DumpEnts() []DumpEnt {
	var out []DumpEnt
	var rec func(o *MObj, path string)
	rec = func(o *MObj, path string) {
		e := DumpEnt{Path: path, Kind: o.Kind, FH: o.FH, Fileid: o.Fileid}
		switch o.Kind {
		case KReg:
			e.Size = o.Size
			e.Hash = contentHash(o.Size, func(pg uint64) []byte { return o.Pages[pg] }, o.probePages())
		case KLnk:
			e.Target = o.Target
		}
		out = append(out, e)
		if o.Kind == KDir {
			names := make([]string, 0, len(o.Ents))
			for n := range o.Ents {
				names = append(names, n)
			}
			sort.Strings(names)
			for _, n := range names {
				rec(m.Objs[o.Ents[n]], path+"/"+quoteName(n))
			}
		}
	}
	rec(m.Objs[m.Root], "")
	return out
}

func quoteName(n string) string {
	q := fmt.Sprintf("%q", n)
	return strings.ReplaceAll(q[1:len(q)-1], "/", "\\x2f")
}

func dumpString(es []DumpEnt) string {
	var sb strings.Builder
	for _, e := range es {
		sb.WriteString(e.line())
		sb.WriteByte('\n')
	}
	return sb.String()
}

func (m *Model) Dump() string { return dumpString(m.DumpEnts()) }

// diffDumps returns a short description of the first differences.
func diffDumps(a, b string) string {
	la := strings.Split(a, "\n")
	lb := strings.Split(b, "\n")
	sa := map[string]bool{}
	sb := map[string]bool{}
	for _, l := range la {
		sa[l] = true
	}
	for _, l := range lb {
		sb[l] = true
	}
	var out []string
	for _, l := range la {
		if !sb[l] && l != "" {
			out = append(out, "- "+l)
		}
	}
	for _, l := range lb {
		if !sa[l] && l != "" {
			out = append(out, "+ "+l)
		}
	}
	if len(out) > 12 {
		out = append(out[:12], fmt.Sprintf("... (%d more)", len(out)-12))
	}
	return strings.Join(out, "\n")
}
