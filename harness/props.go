package main

// Per-property plans: which engines/profiles run, with how many cases.

import (
	"fmt"
	"sort"
)

func allW(base int) map[OpKind]int {
	return map[OpKind]int{
		OpGetattr: base, OpSetattr: 2 * base, OpLookup: 2 * base, OpAccess: 1, OpReadlink: base, OpRead: 3 * base,
		OpWrite: 4 * base, OpCreate: 3 * base, OpMkdir: 2 * base, OpSymlink: base, OpMknod: 1, OpRemove: 2 * base,
		OpRmdir: base, OpRename: 3 * base, OpLink: 1, OpReaddir: base, OpReaddirplus: base, OpFsstat: 1, OpFsinfo: 1,
		OpPathconf: 1, OpCommit: base, OpNull: 1,
	}
}

// seqProfile returns the profile for (property, case).
func seqProfile(prop string, cas int, tier string) Profile {
	p := Profile{Name: prop, W: allW(4), Unstable: true}
	switch prop {
	case "C02":
		p.NOps = 260
		p.DiskBlocks = 40000
		p.PDead, p.PWrongKind, p.PBadName = 8, 8, 12
		p.Big = cas%2 == 1
		p.RPC = cas%3 == 1
		p.Unstable = cas%4 != 3
		p.Timed = cas%5 == 4
		p.RestartEvery = 30
		p.WalkEvery = 25
		if cas%8 == 5 {
			p.ManyObjs = 45 // a directory with many long names
		}
		p.StallInstaller = cas%8 == 3
		if cas%8 == 6 {
			// a nearly full disk: requests that need more blocks than there are
			// must fail as a whole (or, for WRITE, report the short count)
			p.NearFull = true
			p.Big = false
			p.DiskBlocks = []uint64{1800, 2600}[(cas/8)%2]
			p.W[OpSymlink] *= 3
		}
		if cas%8 == 2 {
			// block recycling: big truncations immediately followed by writes
			// across the new end, sparse bursts around the index-range borders
			p.Recycle = true
			p.Big = false
			p.DiskBlocks = 9000
		}
		if cas%16 == 7 {
			// data beyond block 32768 (second block of the block bitmap)
			p.HighBlocks = true
			p.Big = false
			p.RestartEvery = 20
		}
		if tier == "thorough" {
			p.NOps = 400
		}
	case "C06":
		p.NOps = 60
		p.DiskBlocks = 9000
		p.PDead, p.PWrongKind, p.PBadName = 5, 8, 8
		p.ManyBigFrees = true
		p.Recycle = cas%2 == 1
	case "C04":
		p.NOps = 140
		p.DiskBlocks = 12000
		p.PDead, p.PWrongKind, p.PBadName = 3, 8, 8
		p.FsckEvery = 1
		p.WalkEvery = 70
		p.RestartEvery = 40
		p.Big = cas%3 == 2
		if p.Big {
			p.DiskBlocks = 40000
		}
		if cas%4 == 3 {
			p.Big = false
			p.NearFull = true
			p.DiskBlocks = []uint64{1650, 2300}[(cas/4)%2]
		}
		if cas%4 == 0 {
			p.Recycle = true // sparse bursts around the index-range borders, shrink/regrow
		}
		if cas%8 == 1 {
			p.ManyObjs = 45 // multi-block directories, one of them with long names only
			p.HotSet = 4
			p.RestartEvery = 15
		}
	case "C05":
		p.NOps = 180
		p.DiskBlocks = 9000
		p.PDead, p.PWrongKind, p.PBadName = 3, 5, 10
		p.Recycle = true
		p.InodeChurn = cas%2 == 0
		p.FsckEvery = 6
		p.RestartEvery = 25
		p.DeleteAll = true
		if cas%16 == 9 {
			p.HighBlocks = true
			p.DiskBlocks = 40000
		}
		if cas%8 == 5 {
			p.ManyBigFrees = true
		}
		if cas%4 == 3 {
			p.NearFull = true
			p.DiskBlocks = []uint64{1700, 2500}[(cas/4)%2]
		}
		p.W[OpRemove] *= 2
		p.W[OpRmdir] *= 2
		p.W[OpRename] *= 2
	case "C08":
		p.NOps = 200
		p.DiskBlocks = 8000
		p.PDead, p.PWrongKind, p.PBadName = 20, 6, 5
		p.InodeChurn = true
		p.DeadProbe = true
		p.RestartEvery = 12
		p.WalkEvery = 50
		if tier == "thorough" && cas%100 == 7 {
			p.InodeExhaust = true
			p.WalkEvery = 0
		}
	case "C09":
		p.NOps = 160
		p.DiskBlocks = []uint64{1600, 1700, 2100, 3000, 6000}[cas%5]
		p.PDead, p.PWrongKind, p.PBadName = 4, 8, 25
		p.NearFull = true
		p.AfterFail = true
		p.RestartEvery = 45
		p.W[OpMkdir] *= 2
		p.W[OpSymlink] *= 3
		p.W[OpRename] *= 2
		p.Big = cas%4 == 3 // oversized requests
		if cas%10 == 9 {
			// room enough for a request to get as far as a commit that the
			// journal rejects (on the nearly full disks it fails earlier)
			p.NearFull = false
			p.DiskBlocks = 6000
			p.JournalReject = true
			// no gigabyte-sized sparse files here: the whole-tree walks materialise
			// the holes they probe and would fill this small disk by themselves
			// (a hole that can no longer be read is not a trace of the failed
			// request - false alarm of thorough case 299)
			p.Big = false
		}
		if tier == "thorough" && cas%200 == 9 {
			// a nearly exhausted inode table (32 k objects: every full comparison is slow, so only a few cases)
			p.InodeExhaust = true
			p.DiskBlocks = 6000
			p.NOps = 60
		}
	case "C10":
		p.NOps = 120
		p.DiskBlocks = 12000
		p.PDead, p.PWrongKind, p.PBadName = 4, 8, 15
		p.ManyObjs = 130
		p.HotSet = 5
		p.TwinEvery = 20
		p.FsckEvery = 2
		p.NearFull = cas%3 == 2
		if p.NearFull {
			p.DiskBlocks = 2600
		}
		if cas%16 == 7 {
			p.HighBlocks = true
			p.NearFull = false
			p.DiskBlocks = 40000
			p.ManyObjs = 30
		}
		if cas%16 == 3 {
			p.JournalReject = true
		}
		p.StallInstaller = cas%8 == 5
	case "C12":
		p.NOps = 220
		p.DiskBlocks = []uint64{1800, 2400, 3200, 12000}[cas%4]
		p.PDead, p.PWrongKind, p.PBadName = 1, 2, 2
		p.Recycle = true
		p.Sweep = true
		p.ZeroScan = true
		p.WalkEvery = 30
		p.RestartEvery = 60
		p.W[OpMkdir] = 1
		p.W[OpSymlink] = 2
		p.StallInstaller = cas%8 == 6
		if cas%4 == 1 {
			// nearly full: index blocks and data blocks compete for the last free blocks
			p.NearFull = true
			p.Sweep = false
		}
		if cas%16 == 11 {
			// blocks beyond 32768 (second bitmap block) recycled across restarts
			p.DiskBlocks = 40000
			p.HighBlocks = true
			p.Sweep = false
			p.RestartEvery = 20
		}
	}
	return p
}

func crashCfg(prop string, cas int, tier string) CrashCfg {
	c := CrashCfg{Name: prop, NOps: 30, DiskBlocks: 20000, Unstable: cas%3 != 2, Timed: cas%5 == 3, Lossy: 1, Depth2Every: 100, Depth2Stride: 5, CutStride: 1, Perturb: cas%2 == 1, Continue: true, ContinueEvery: 3}
	switch prop {
	case "C01":
		c.Script = cas%8 == 3
		c.BigFiles = cas%4 == 1
		if tier == "thorough" {
			c.BigFiles = cas%4 == 1
			c.Lossy = 3
			c.Depth2Every = 10
			c.Depth2Stride = 2
			c.ContinueEvery = 1
			c.NOps = 50
		}
	case "C07":
		c.WriteHeavy = true
		c.Dense = cas%4 == 1
		c.Restarts = cas%2 == 0
		c.Unstable = cas%4 != 3
		c.NOps = 40
		if tier == "thorough" {
			c.Lossy = 2
			c.NOps = 70
			c.ContinueEvery = 1
		}
	case "C04":
		c.BigFiles = cas%2 == 0
		c.ContinueEvery = 3
		c.CutStride = 2
		c.Depth2Every = 0
	case "C05":
		c.BigFiles = true
		c.CutStride = 2
		c.Depth2Every = 0
		c.NOps = 30
	case "C12":
		c.BigFiles = true
		c.CutStride = 3
		c.Depth2Every = 0
		c.ContinueEvery = 2
	}
	return c
}

func crashJob(job Job) *JobRes {
	mon.Off()
	cfg := crashCfg(job.Profile, job.Case, job.Tier)
	childLog("crash profile=%s seed=%d case=%d", cfg.Name, job.Seed, job.Case)
	r := runCrash(cfg, job.Seed, job.Case)
	out := &JobRes{Viol: r.Viol, Evals: r.Images, Counters: Counter{}}
	out.Distinct = sortedKeys(r.Distinct)
	out.Counters["crash_images"] = r.Images
	out.Counters["crash_images_nontrivial(lo<hi)"] = r.NonTrivial
	out.Counters["crash_images_with_unstable_suffix"] = r.UnstableSuffix
	out.Counters["crash_images_mid_shrink"] = r.MidShrink
	out.Counters["crash_images_depth2"] = r.Depth2
	out.Counters["crash_images_lossy"] = r.LossyN
	out.Counters["crash_workload_ops"] = r.Ops
	out.Counters["crash_trace_events"] = r.TraceLen
	out.Counters["server_instances_with_verifier"] = r.VerfInstances
	out.Counters.Merge(r.Hist)
	out.Counters.Merge(r.Lost)
	out.Samples = []interface{}{map[string]interface{}{"engine": "crash", "profile": cfg.Name, "case": job.Case, "first_ops": r.Sample, "trace_events": r.TraceLen}}
	return out
}

func withCrash(base func(string, uint64) []Job, prop string, quick, thorough int) func(string, uint64) []Job {
	return func(tier string, seed uint64) []Job {
		js := base(tier, seed)
		n := quick
		if tier == "thorough" {
			n = thorough
		}
		for i := 0; i < n; i++ {
			js = append(js, Job{Engine: "crash", Profile: prop, Seed: seed, Case: i})
		}
		return js
	}
}

func noJobs(string, uint64) []Job { return nil }

func withWindow(base func(string, uint64) []Job, prop string) func(string, uint64) []Job {
	return func(tier string, seed uint64) []Job {
		js := base(tier, seed)
		for i := 0; i < 4; i++ {
			js = append(js, Job{Engine: "window", Profile: prop, Seed: seed, Case: i})
		}
		return js
	}
}

func concCfg(prop string, cas int, tier string) ConcCfg {
	c := ConcCfg{Name: prop, Hist: 25, Clients: 3 + cas%2, OpsPer: 4 + cas%3, BigFile: cas%2 == 1, Unstable: cas%5 != 4, RPC: cas%4 == 2,
		Yield: cas%6 != 5, LowChild: cas%3 != 2, Procs: []int{2, 4, 16}[cas%3]}
	c.Focus = cas%4 == 3
	c.FileFocus = cas%8 == 5
	c.HalfFreed = cas%8 == 6 || cas%8 == 1
	if cas%8 == 4 && !knownOpen("C04", "rename-dir-across-directories") && !knownOpen("C04", "rename-dir-into-own-subtree") {
		c.DirMoves = true
		c.Focus, c.FileFocus, c.HalfFreed = false, false, false
		c.OpsPer = 6
	}
	if cas%8 == 7 {
		c.Evict = true
		c.Focus, c.FileFocus, c.HalfFreed, c.DirMoves = false, false, false, false
		c.Hist = 10
	}
	if cas%16 == 10 {
		// whole listings of a root directory of two blocks next to removals and
		// creations at both ends of it
		c.WideRoot = true
		c.Focus, c.FileFocus, c.HalfFreed, c.DirMoves, c.Evict = false, false, false, false, false
		c.OpsPer = 5
		c.Hist = 30
	}
	if tier == "thorough" {
		c.Hist *= 2
	}
	if prop == "C05" {
		c.BigFile = true
		c.BigBias = cas%2 == 0
	}
	if prop == "C14" {
		c.NoCheck = true
		c.OpsPer = 8
		c.Hist = 12
		if cas%8 == 3 {
			c.BigBias, c.BigFile = true, true
			c.Focus, c.FileFocus, c.HalfFreed, c.DirMoves, c.Evict = false, false, false, false, false
		}
		if cas%4 == 1 {
			c.AbortHammer = true
			c.HalfFreed, c.FileFocus, c.Focus = false, false, false
			c.OpsPer = 120
			c.Hist = 4
			c.Clients = 4
		}
	}
	return c
}

func withConc(base func(string, uint64) []Job, prop string, quick, thorough int, race bool) func(string, uint64) []Job {
	return func(tier string, seed uint64) []Job {
		js := base(tier, seed)
		n := quick
		if tier == "thorough" {
			n = thorough
		}
		for i := 0; i < n; i++ {
			js = append(js, Job{Engine: "conc", Profile: prop, Seed: seed, Case: i, Race: race})
		}
		return js
	}
}

func seqPlan(prop string, quick, thorough int) func(string, uint64) []Job {
	return func(tier string, seed uint64) []Job {
		n := quick
		if tier == "thorough" {
			n = thorough
		}
		var js []Job
		for i := 0; i < n; i++ {
			js = append(js, Job{Engine: "seq", Profile: prop, Seed: seed, Case: i})
		}
		return js
	}
}

func dispatch(job Job) *JobRes {
	switch job.Engine {
	case "seq":
		return seqJob(job)
	case "crash":
		return crashJob(job)
	case "window":
		return windowJobRes(runWindow(job.Seed, job.Case, job.Tier, job.Profile))
	case "cgate":
		return cgateJobRes(runCGate(job.Seed, job.Case, job.Tier))
	case "dgate":
		return dgateJobRes(runDGate(job.Seed, job.Case, job.Tier))
	case "inotable":
		return runInoTable(job.Seed, job.Case, job.Tier)
	case "cns":
		return cnsJobRes(runCNS(job.Seed, job.Case, job.Tier))
	case "ccrash":
		mon.Off()
		r := runCCrash(job.Seed, job.Case, job.Tier)
		out := &JobRes{Viol: r.Viol, Evals: r.Images, Counters: Counter{"concurrent_histories": r.Histories, "concurrent_crash_images": r.Images, "concurrent_images_nontrivial": r.NonTrivial, "stable_acks_overlapping_another_clients_write": r.Overlaps}, Distinct: sortedKeys(r.Keys)}
		out.Samples = []interface{}{r.Sample}
		return out
	case "probe01":
		return probeFormatCrash()
	case "probe04":
		return probeC04()
	case "hostile":
		r := runHostile(job.Seed, job.Case, job.Tier)
		out := &JobRes{Viol: r.Viol, Evals: r.Requests, Counters: Counter{"requests": r.Requests, "fuzzed_frames": r.Fuzzed, "canary_checks": r.Canaries, "distinct_reply_statuses": len(r.Statuses)}, Distinct: sortedKeys(r.Keys)}
		for _, x := range r.Sample {
			out.Samples = append(out.Samples, x)
		}
		return out
	case "simple":
		mon.Off()
		r := runSimple(job.Seed, job.Case, job.Tier)
		out := &JobRes{Viol: r.Viol, Evals: r.Ops + r.Images, Counters: Counter{"requests": r.Ops, "histories": r.Histories, "per_inode_partitions_checked": r.Partitions, "crash_images": r.Images, "crash_images_with_request_in_flight": r.InFlight}, Distinct: sortedKeys(r.Keys)}
		out.Samples = []interface{}{r.Sample}
		return out
	case "kvs":
		mon.Off()
		r := runKvs(job.Seed, job.Case, job.Tier)
		out := &JobRes{Viol: r.Viol, Evals: r.Ops + r.Images, Counters: Counter{"puts_and_gets": r.Ops, "histories": r.Histories, "histories_with_overlapping_concurrent_multiputs": r.Overlap, "crash_images": r.Images, "crash_images_with_operation_in_flight": r.InFlight}}
		for k := range r.Keys {
			out.Distinct = append(out.Distinct, k)
		}
		if r.InFlight > 0 {
			out.Distinct = append(out.Distinct, fmt.Sprintf("inflight-images-%d", minInt(r.InFlight, 3)), fmt.Sprintf("overlap-%d", minInt(r.Overlap, 3)))
		}
		out.Samples = []interface{}{r.Sample}
		return out
	case "xdr":
		mon.Off()
		childLog("xdr seed=%d case=%d", job.Seed, job.Case)
		r := runXdr(job.Seed, job.Case, job.N)
		out := &JobRes{Viol: r.Viol, Evals: r.Values, Counters: Counter{"values_encoded": r.Values, "byte_strings_offered_to_decoders": r.Bytes, "types_covered": len(r.Types), "types_in_registry": len(xdrRegistry), "hand_vectors": r.Vectors, "procedure_numbers_dispatched": r.Procs}, Distinct: sortedKeys(r.Arms)}
		if len(r.Types) != len(xdrRegistry) && len(r.Viol) == 0 {
			out.Viol = append(out.Viol, Violation{Class: "harness", Msg: fmt.Sprintf("only %d of %d types were exercised", len(r.Types), len(xdrRegistry))})
		}
		for _, sm := range r.Sample {
			out.Samples = append(out.Samples, sm)
		}
		out.Known = r.Known
		return out
	case "sizes":
		mon.Off()
		var from, to uint64
		var fe int
		fmt.Sscan(job.Args["from"], &from)
		fmt.Sscan(job.Args["to"], &to)
		fmt.Sscan(job.Args["fill"], &fe)
		r := runSizes(from, to, fe, job.Seed)
		out := &JobRes{Viol: r.Viol, Evals: r.Checked, Counters: Counter{"sizes_checked": r.Checked, "sizes_filled_completely": r.Filled, "sizes_rejected": r.Rejected}, Distinct: sortedKeys(r.Combos), Samples: r.Sample}
		return out
	case "census":
		childLog("census seed=%d case=%d", job.Seed, job.Case)
		return censusJobRes(runCensus(job.Seed, job.Case, job.Tier))
	case "conc":
		cfg := concCfg(job.Profile, job.Case, job.Tier)
		if job.N > 0 {
			cfg.Hist = job.N
		}
		childLog("conc profile=%s seed=%d case=%d hist=%d", cfg.Name, job.Seed, job.Case, cfg.Hist)
		return concJobRes(runConc(cfg, job.Seed, job.Case))
	case "enum":
		mon.Reset(0, false)
		childLog("enum seed=%d case=%d", job.Seed, job.Case)
		r := runEnum(job.Seed, job.Case, job.Tier)
		out := &JobRes{Viol: r.Viol, Evals: r.Enums, Counters: Counter{"pages": r.Pages, "enumerations_with_2_or_more_pages": r.Multi, "enumerations_with_mutation_inside": r.Mutated, "resumes_from_earlier_cookies": r.Resumes}}
		out.Counters.Merge(r.Shapes)
		if r.Multi > 0 {
			out.Distinct = sortedKeys(r.Combos)
		}
		out.Samples = []interface{}{r.Sample}
		return out
	case "e2e":
		mon.Reset(0, false)
		mode := job.Args["mode"]
		childLog("e2e seed=%d case=%d mode=%s ops=%d", job.Seed, job.Case, mode, job.N)
		var r *E2ERes
		if mode == "simple" {
			r = runE2ESimple(job.Seed, job.Case, job.N)
		} else {
			r = runE2E(job.Seed, job.Case, mode, job.N)
		}
		out := &JobRes{Evals: r.Ops, Inconclusive: r.Inconclusive, Counters: Counter{"e2e_requests_over_tcp_to_the_real_binary": r.Ops, "e2e_server_instances": r.Instances, "e2e_restarts_compared": r.Restarts,
			"e2e_sigkills": r.Kills, "e2e_write_verifiers_seen": r.VerfSeen, "e2e_whole_tree_comparisons": r.Walks, "e2e_hostile_requests": r.Hostile}}
		for _, v := range r.Viol {
			v.Class = e2eClass(job.Profile, v.Class)
			out.Viol = append(out.Viol, v)
		}
		if r.Ops > 0 {
			for k := range r.Stats {
				out.Distinct = append(out.Distinct, "e2e-"+mode+"/"+k)
			}
			sort.Strings(out.Distinct)
		}
		out.Samples = []interface{}{map[string]interface{}{"e2e_mode": mode, "first_requests": r.Sample}}
		return out
	case "limits":
		mon.Reset(0, false)
		childLog("limits seed=%d case=%d", job.Seed, job.Case)
		r := runLimits(job.Seed, job.Case, job.Tier)
		out := &JobRes{Viol: r.Viol, Evals: r.Cases, Counters: Counter{}, Distinct: sortedKeys(r.Keys)}
		out.Samples = []interface{}{map[string]interface{}{"announced": r.Lim, "first_ops": r.Sample}}
		return out
	}
	return &JobRes{Viol: []Violation{{Class: "harness", Msg: "unknown engine " + job.Engine}}}
}

func seqJob(job Job) *JobRes {
	p := seqProfile(job.Profile, job.Case, job.Tier)
	if sp, ok := propSpecs()[job.Profile]; ok {
		p.Own = sp.Classes
	}
	mon.Reset(0, false)
	childLog("seq profile=%s seed=%d case=%d disk=%d ops=%d", p.Name, job.Seed, job.Case, p.DiskBlocks, p.NOps)
	r := runSeq(p, job.Seed, job.Case)
	out := &JobRes{Viol: r.Viol, Evals: r.Ops, Counters: Counter{}}
	// non-trivial sequences contribute their distinct (procedure, outcome,
	// argument class) triples / distinct on-disk states
	fails, bigfile := 0, r.MaxFile > 8*BlockSize
	for k, v := range r.Stats {
		out.Counters[k] += v
		if !containsOK(k) {
			fails += v
		}
	}
	nontrivial := fails > 0 && bigfile
	switch job.Profile {
	case "C02":
		nontrivial = nontrivial && r.Restarts > 0
	case "C04", "C05":
		nontrivial = r.NonTrivial
	case "C09":
		nontrivial = r.FailDirty > 0
	case "C10":
		nontrivial = r.Twins > 0 && r.CachedNames > 0
	}
	if nontrivial {
		switch job.Profile {
		case "C04", "C05", "C10":
			for h := range r.States {
				out.Distinct = append(out.Distinct, h)
			}
		default:
			for k := range r.Stats {
				out.Distinct = append(out.Distinct, k)
			}
		}
	}
	sort.Strings(out.Distinct)
	out.Counters["walks"] += r.Walks
	out.Counters["fscks"] += r.Fscks
	out.Counters["twin_comparisons"] += r.Twins
	out.Counters["restarts"] += r.Restarts
	out.Counters["failing_ops_checked"] += r.FailChecks
	out.Counters["failing_ops_that_had_dirtied_state"] += r.FailDirty
	out.Counters["handles_issued"] += r.HandlesIssued
	out.Counters["inode_numbers_reused"] += r.InodeReuse
	out.Counters["cached_inodes_compared"] += r.CachedIno
	out.Counters["cached_names_compared"] += r.CachedNames
	out.Counters["sweep_blocks"] += r.SweepBlocks
	out.Counters["nospc_followed"] += r.NoSpcFollowed
	if r.Evictions {
		out.Counters["sequences_with_cache_at_capacity"]++
	}
	for k, v := range r.DeadProbes {
		out.Counters["deadprobe:"+k] += v
	}
	out.Samples = []interface{}{map[string]interface{}{"profile": p.Name, "seed": job.Seed, "case": job.Case, "first_ops": r.Sample}}
	if len(r.Viol) > 0 {
		out.Notes = append(out.Notes, "last operations:\n"+joinLines(r.OpLog[maxInt(0, len(r.OpLog)-40):]))
	}
	return out
}

func maxInt(a, b int) int {
	if a > b {
		return a
	}
	return b
}

func containsOK(k string) bool {
	for i := 0; i+3 < len(k); i++ {
		if k[i:i+4] == "/ok/" {
			return true
		}
	}
	return false
}

// e2eClass maps the violation classes of the end-to-end engine to the classes
// of the property a job runs for.
func e2eClass(prop, class string) string {
	switch prop {
	case "C16":
		if class == "crash" {
			return "crash"
		}
		return "xdr" // a reply of the wrong type/effect through the real registration
	case "C07":
		if class == "verf" {
			return "verf"
		}
		return "crash" // acknowledged data missing after the SIGKILL
	case "C10":
		if class == "crash" {
			return "crash"
		}
		return "twin"
	case "C11":
		if class == "crash" {
			return "crash"
		}
		return "canary"
	case "C17":
		if class == "crash" {
			return "crash"
		}
		return "simple"
	}
	return class
}

// withE2E adds end-to-end jobs (real cmd/go-nfsd binary over TCP) of the given modes.
func withE2E(base func(string, uint64) []Job, prop string, modes []string, nops, thoroughRounds int) func(string, uint64) []Job {
	return func(tier string, seed uint64) []Job {
		js := base(tier, seed)
		rounds := 1
		if tier == "thorough" {
			rounds = thoroughRounds
		}
		for r := 0; r < rounds; r++ {
			for i, m := range modes {
				js = append(js, Job{Engine: "e2e", Profile: prop, Seed: seed, Case: r*len(modes) + i, N: nops, Args: map[string]string{"mode": m}})
			}
		}
		return js
	}
}

func propSpecs() map[string]PropSpec {
	m := map[string]PropSpec{}
	add := func(s PropSpec) { m[s.ID] = s }
	add(PropSpec{ID: "C02", Level: "exploration", Classes: []string{"reply", "dump", "content", "handle", "crash"},
		Rule: "seeded state-aware sequences over all 22 procedures (live/dead/garbage handles, boundary names/offsets, restarts, direct and rpc adapters) compared reply-by-reply and by whole-tree dumps with the reference model; distinct = distinct (procedure, outcome class, argument class) triples observed in sequences that contain a failure, a restart and a file beyond the direct blocks",
		Plan:  withE2E(seqPlan("C02", 160, 1600), "C02", []string{"kill"}, 90, 6),
		Assume: []string{"reference model conventions of DESIGN.md §2.2", "open known findings are avoided by the generators (KNOWN_FINDINGS.txt)"}})
	add(PropSpec{ID: "C04", Level: "exploration", Classes: []string{"fsck", "crash"},
		Rule: "fsck of the logical disk (repository's own decoders) after every operation of seeded sequences, after concurrent histories and on crash images; distinct = distinct (owned-block-set, tree) hashes of states that have an indirect block or a nested directory",
		Plan: func(tier string, seed uint64) []Job {
			js := withConc(withCrash(seqPlan("C04", 32, 600), "C04", 4, 60), "C04", 12, 200, false)(tier, seed)
			return append(js, Job{Engine: "probe04", Profile: "C04", Seed: seed})
		}})
	add(PropSpec{ID: "C05", Level: "exploration", Classes: []string{"leak", "crash"},
		Rule: "build-then-delete sequences; conservation (marked = reachable, allocators = bitmaps, no half-freed inode) at shrinker-idle quiescence every 6 ops, after restarts, and after deleting everything; distinct = distinct on-disk state hashes checked",
		Plan: withConc(withCrash(seqPlan("C05", 32, 600), "C05", 4, 60), "C05", 24, 300, false)})
	add(PropSpec{ID: "C08", Level: "exploration", Classes: []string{"handle", "reply", "crash", "lin"},
		Rule: "inode-reuse-heavy sequences with restarts; every handle bound to one object; a pool of dead handles presented to every procedure and handle position; inode-table sweep: every inode number up to the last is handed out (no number twice, none skipped), used through its handle, freed (old handles stale), handed out again after a restart with a different handle; distinct = distinct (procedure, outcome, argument class) triples incl. deadprobe (procedure, position, reused?) classes",
		Plan: func(tier string, seed uint64) []Job {
			js := withWindow(seqPlan("C08", 96, 900), "C08")(tier, seed)
			n := 1
			if tier == "thorough" {
				n = 4
			}
			for i := 0; i < n; i++ {
				js = append(js, Job{Engine: "inotable", Profile: "C08", Seed: seed, Case: i})
			}
			return js
		}})
	add(PropSpec{ID: "C09", Level: "exploration", Classes: []string{"afterfail", "crash"},
		Rule: "sequences on nearly-full disks of five sizes; after every failing RPC: free block/inode counts unchanged, whole tree = reference (in which the op never happened), fsck + cache/disk coherence; distinct = distinct (procedure, outcome, argument class) triples in sequences where a failing transaction had dirtied state",
		Plan: seqPlan("C09", 60, 800)})
	add(PropSpec{ID: "C10", Level: "exploration", Classes: []string{"twin", "cache", "crash"},
		Rule: "sequences with >100 live objects and multi-block directories; every 20 ops: flush, compare live server with a server recovered from a copy of the image and with itself after a clean restart (handles, attributes, times, listing order, bytes), and cached inodes/name caches/allocators with the logical disk; distinct = distinct state hashes at comparison points",
		Plan: withE2E(withConc(seqPlan("C10", 48, 600), "C10", 16, 150, false), "C10", []string{"clean"}, 90, 6)})
	add(PropSpec{ID: "C12", Level: "exploration", Classes: []string{"content", "crash"},
		Rule: "block-recycling sequences on small disks (pattern f(write id, offset) never zero), shrink to aligned/unaligned sizes and regrow, free-space sweep at the end; every READ and whole-tree dump compared with the reference; distinct = distinct (procedure, outcome, argument class) triples",
		Plan: func(tier string, seed uint64) []Job {
			js := withCrash(seqPlan("C12", 90, 900), "C12", 4, 40)(tier, seed)
			// the only free inode number cycling through directory / symbolic link /
			// regular file with warm caches: a new file must start empty
			return append(js, Job{Engine: "inotable", Profile: "C12", Seed: seed, Case: 0})
		}})
	add(PropSpec{ID: "C01", Level: "fault_enumeration", Classes: []string{"crash"},
		Rule: "each seeded workload (all mutating RPCs, three stability levels, multi-block writes, truncations, big-file removal) is recorded on the crash disk; EVERY prefix cut of its trace, one (thorough: three) lossy image(s) per cut with un-barriered writes lost/reordered, and cuts of sampled recovery runs (depth 2) are recovered by the real MakeNfs; the recovered tree must equal reference state S_j for some lo<=j<=hi, handles preserved, fsck clean, continuation workload in lock-step with S_j; concurrent traces (2-4 clients confined to their own directories, journal-rejected requests next to them): every client's subtree a prefix state of its own sequence within [durable, issued], combination consistent with real time; directed: each kind of stable request parked at its pre-commit/first-release/post-commit hook while a journal-rejected and an unstable request run, image at the instant of its reply recovered; distinct = distinct (recovered tree, on-disk state, lo, hi) with lo<hi (an operation in flight or an unstable suffix)",
		Plan: func(tier string, seed uint64) []Job {
			js := append(withCrash(noJobs, "C01", 8, 48)(tier, seed), Job{Engine: "probe01", Profile: "C01", Seed: seed}) // a thorough trace has > 10000 images
			n := 6
			if tier == "thorough" {
				n = 80
			}
			for i := 0; i < n; i++ {
				js = append(js, Job{Engine: "cns", Profile: "C01", Seed: seed, Case: i})
			}
			for i := 0; i < 4; i++ {
				js = append(js, Job{Engine: "cgate", Profile: "C01", Seed: seed, Case: i})
			}
			return js
		}})
	add(PropSpec{ID: "C07", Level: "fault_enumeration", Classes: []string{"crash", "verf", "content"},
		Rule: "write-heavy workloads over several files mixing UNSTABLE/DATA_SYNC/FILE_SYNC, COMMIT and metadata operations, Unstable option on/off, clean restarts without flush; every prefix cut + lossy cuts recovered: state must be a reference prefix >= everything acknowledged stable (loss only as a suffix); every WRITE/COMMIT reply checked for committed level and verifier (constant per instance, different across instances); concurrent writers with COMMITs and journal-rejected requests next to them; the directed commit-gate runs of C01; distinct as C01",
		Plan: func(tier string, seed uint64) []Job {
			js := withCrash(noJobs, "C07", 8, 150)(tier, seed)
			n := 8
			if tier == "thorough" {
				n = 60
			}
			for i := 0; i < n; i++ {
				js = append(js, Job{Engine: "ccrash", Profile: "C07", Seed: seed, Case: i})
			}
			for i := 0; i < 4; i++ {
				js = append(js, Job{Engine: "cgate", Profile: "C07", Seed: seed, Case: i})
			}
			js = withE2E(func(string, uint64) []Job { return js }, "C07", []string{"sync", "kill"}, 70, 4)(tier, seed)
			return js
		}})
	add(PropSpec{ID: "C03", Level: "exploration", Classes: []string{"lin", "crash", "hang", "deadlock"},
		Rule: "short histories (3-4 clients x 4-6 conflicting RPCs on shared names/files/directories, big file freed by the shrinker in the window, cold caches, children numbered below their directories) recorded at the client boundary with one atomic clock and checked by porcupine against the reference model, the final tree included as a read; schedules widened by seeded yields at lock/commit hooks and disk calls, GOMAXPROCS 2/4/16; directed interleavings: one request parked at its n-th transaction abort (window) or inside its n-th disk read while it holds its locks and cache slots (disk gate), other requests started against it, a sweep over more inodes than the inode cache holds, everything looked at again afterwards; distinct = distinct fingerprints of the global (hook site, client, inode) event sequence, counted only if some history had a contended acquire or an abort-and-relock",
		Plan: func(tier string, seed uint64) []Job {
			js := withWindow(withConc(noJobs, "C03", 120, 1200, false), "C03")(tier, seed)
			for i := 0; i < 6; i++ {
				js = append(js, Job{Engine: "dgate", Profile: "C03", Seed: seed, Case: i})
			}
			return js
		}})
	add(PropSpec{ID: "C06", Level: "exploration", Classes: []string{"deadlock", "hang", "crash"},
		Rule: "every inode-lock request is observed with the locks its transaction holds: (a) single-threaded census over every parent/child pair of trees whose children are numbered both below and above their directories (LOOKUP incl. '.'/'..', READDIR/READDIRPLUS, CREATE/REMOVE, RENAME within/across directories, over existing targets, coinciding inodes, aliased and dead handles; warm and cold caches), (b) concurrent stress with the wait-for detector armed and seeded yields; violations: self-wait, wait-for cycle (both detected before blocking), cycle in the accumulated lock-order graph, transaction abandoned with locks held, > 1000 begin/abort cycles without any commit, wedged server; distinct = distinct (call site, ascending/descending) edge classes and distinct interleaving fingerprints",
		Plan: func(tier string, seed uint64) []Job {
			n := 6
			if tier == "thorough" {
				n = 60
			}
			var js []Job
			for i := 0; i < n; i++ {
				js = append(js, Job{Engine: "census", Profile: "C06", Seed: seed, Case: i})
			}
			for i := 0; i < 6; i++ {
				// requests parked inside a disk read with waiters behind them while the inode cache turns over
				js = append(js, Job{Engine: "dgate", Profile: "C06", Seed: seed, Case: i})
			}
			// background frees: seven big files, an orderly shutdown with frees in
			// flight, 72 truncations whose shrinker threads are held in flight together
			for i := 0; i < 2; i++ {
				js = append(js, Job{Engine: "seq", Profile: "C06", Seed: seed, Case: i})
			}
			return withWindow(withConc(func(string, uint64) []Job { return js }, "C06", 64, 800, false), "C06")(tier, seed)
		},
		Assume: []string{"no gate locks: every other mutex is a leaf taken while inode locks are held (true for this code base)", "fresh (just allocated, free) inodes are exempt from the order: nobody can hold a free inode while waiting for another lock"}})
	add(PropSpec{ID: "C14", Level: "exploration", Classes: []string{"race", "crash", "hang"},
		Rule: "the harness is built with -race (which also instruments /repo and GoJournal) and runs the conflicting concurrent histories of C03 (same names, same files, shrinker active, READDIRPLUS during updates, restarts, direct and rpc adapters) with the lock monitor and seeded yields on; every report of the race detector with a repository or GoJournal frame is a violation (de-duplicated by the pair of first repository frames); distinct = distinct interleaving fingerprints, counted only when locks were contended",
		Plan: func(tier string, seed uint64) []Job {
			js := withConc(noJobs, "C14", 32, 900, true)(tier, seed)
			// directed: one request parked inside a disk read (holding its lock and
			// cache slot) while more inodes than the cache holds pass through it
			for i := 0; i < 3; i++ {
				js = append(js, Job{Engine: "dgate", Profile: "C14", Seed: seed, Case: i, Race: true})
			}
			return js
		},
		Assume: []string{"the race detector only observes the interleavings that were executed", "GORACE=halt_on_error=0: reports are collected from the log files, exit codes are not trusted"}})
	add(PropSpec{ID: "C15", Level: "exploration", Exhaustive: true, Classes: []string{"size", "crash"},
		Rule: "EXHAUSTIVE over the stated ranges: every disk size from the smallest one MakeNfs accepts (found by trying downwards) for 400 (thorough: 3000) consecutive sizes and every size within +-40 of 32768*k (k=1,2,3) is formatted by the real MakeNfs; per size: regions ordered/disjoint/inside the disk, fresh bitmaps mark exactly the non-data blocks + the root directory and inodes 0,1, allocators agree, root usable; sampled sizes (thorough: all of the dense range) are filled to NOSPC (free must reach 0, every data block owned once, none outside) and emptied again (free = initial); distinct = distinct (bitmap blocks, size mod 8, position relative to 32768) classes",
		Plan: func(tier string, seed uint64) []Job {
			min := findMinSize()
			n, fill, wfill := uint64(400), 8, 0
			if tier == "thorough" {
				n, fill, wfill = 3000, 1, 8
			}
			var js []Job
			mk := func(from, to uint64, fe int) {
				js = append(js, Job{Engine: "sizes", Profile: "C15", Seed: seed, Case: len(js), Args: map[string]string{"from": fmt.Sprint(from), "to": fmt.Sprint(to), "fill": fmt.Sprint(fe)}})
			}
			// also the sizes just below the minimum: they must be rejected, not half-accepted
			mk(min-3, min, 0)
			// sizes at which the disk runs out while the big file crosses from the
			// indirect into the double-indirect range (file block 520)
			mk(min+505, min+560, 1)
			// disks with two and three block-bitmap blocks, filled completely
			mk(32768+5+seed%7, 32768+6+seed%7, 1)
			if tier == "thorough" {
				mk(65536+3+seed%5, 65536+4+seed%5, 1)
			}
			for a := min; a < min+n; a += 25 {
				mk(a, minU64(a+25, min+n), fill)
			}
			for k := uint64(1); k <= 3; k++ {
				for a := 32768*k - 40; a < 32768*k+41; a += 9 {
					fe := wfill
					if tier != "thorough" && k == 1 && a == 32768-40+36 {
						fe = 9
					}
					mk(a, minU64(a+9, 32768*k+41), fe)
				}
			}
			return js
		},
		Assume: []string{"'accepted' = MakeNfs on a blank disk of that size returns without panicking", "at most two blocks may remain unusable when NOSPC is first reported (a data block in a new indirect range needs its index blocks too)"}})
	add(PropSpec{ID: "C16", Level: "exploration", Classes: []string{"xdr", "crash", "harness"},
		Rule: "for every exported nfstypes type with an Xdr method (registry regenerated from /repo/nfstypes/nfs_xdr.go at build time): values generated by reflection (every union discriminant from a pool incl. illegal ones, optional/list shapes 0/1/many, lengths 0/1/3/4/63/64/65/255/256/1000) are encoded by nfstypes and by go-rpcgen's rfc1813 (generated from the RFC's .x file) and must give the same bytes / the same error; decode(encode(v)) re-encodes identically and equals the RFC decoder's value; truncated encodings must be rejected; mutated and random byte strings must be accepted/rejected alike with equal values; 16 hand-derived RFC 1813 byte vectors; all 22+6 procedure numbers (and unknown ones) sent with RFC-encoded arguments through rfc1057 to a recording handler registered like cmd/go-nfsd does; distinct = distinct (type, discriminant/optional shape) combinations",
		Plan: func(tier string, seed uint64) []Job {
			n, it := 16, 60
			if tier == "thorough" {
				n, it = 320, 600
			}
			var js []Job
			for i := 0; i < n; i++ {
				js = append(js, Job{Engine: "xdr", Profile: "C16", Seed: seed, Case: i, N: it})
			}
			js = withE2E(func(string, uint64) []Job { return js }, "C16", []string{"clean", "stats", "simple"}, 150, 4)(tier, seed)
			return js
		},
		Assume: []string{"go-rpcgen's rfc1813 package is an independent rendering of the RFC's XDR description (same generator: hand-derived vectors guard the shared part)"}})
	add(PropSpec{ID: "C17", Level: "fault_enumeration", Classes: []string{"simple", "crash"},
		Rule: "simple.Nfs against the specification '30 files (inodes 2..31) of at most 4096 bytes': boundary-dense sequential requests (valid/invalid inode numbers, short handles, offsets 0..2^64-1, counts, count != data length, sizes) through direct and rpc adapters; EVERY prefix cut and one lossy image per cut of the disk trace recovered with simple.Recover must equal a state between the last acknowledged and the last issued request; concurrent histories (3-4 clients on few inodes) checked by porcupine, partitioned per inode; distinct = distinct (procedure, outcome, argument class) triples",
		Plan: func(tier string, seed uint64) []Job {
			n := 8
			if tier == "thorough" {
				n = 320
			}
			var js []Job
			for i := 0; i < n; i++ {
				js = append(js, Job{Engine: "simple", Profile: "C17", Seed: seed, Case: i})
			}
			js = withE2E(func(string, uint64) []Job { return js }, "C17", []string{"simple"}, 300, 6)(tier, seed)
			return js
		}})
	add(PropSpec{ID: "C18", Level: "fault_enumeration", Classes: []string{"kvs", "crash"},
		Rule: "kvs.KVS with values carrying unique ids: sequential MultiPut/Get over a key set that includes both ends of the valid range (out-of-range keys must be refused); EVERY prefix cut and one lossy image per cut of the disk trace recovered by MkKVS must equal the model after a prefix between the last acknowledged and the last issued operation (multi-put all-or-nothing); concurrent overlapping multi-puts and gets checked by porcupine; distinct = distinct operation shapes plus images-in-flight/overlap classes",
		Plan: func(tier string, seed uint64) []Job {
			n := 8
			if tier == "thorough" {
				n = 480
			}
			var js []Job
			for i := 0; i < n; i++ {
				js = append(js, Job{Engine: "kvs", Profile: "C18", Seed: seed, Case: i})
			}
			return js
		}})
	add(PropSpec{ID: "C11", Level: "exploration", Classes: []string{"crash", "hang", "canary", "deadlock", "memory"},
		Rule: "structured hostile argument generation for all 22 NFS and 6 MOUNT procedures of nfs.Nfs (direct and rpc adapters) and of simple.Nfs: handles of length 0-64 with arbitrary bytes / valid number and any generation / numbers at the table ends, names of length 0..70000 incl. '.', '..', NUL, offsets/counts/sizes/cookies from boundary pools up to 2^64-1, counts that disagree with the data supplied, every enumeration value incl. illegal ones; in five file-system states (empty, deep, nearly full, shrinking, cold caches); plus byte-level mutation of well-formed framed RPC calls sent to an rfc1057 server registered like cmd/go-nfsd; every request is logged before it is sent, the child must survive (ulimit -v 8 GiB), answer (watchdog + lock monitor) and pass the canary (GETATTR root, create/write/read/remove, fsck) afterwards; distinct = distinct (procedure, handle-length class, argument class) combinations",
		Plan: func(tier string, seed uint64) []Job {
			n := 40
			if tier == "thorough" {
				n = 1200
			}
			var js []Job
			for i := 0; i < n; i++ {
				js = append(js, Job{Engine: "hostile", Profile: "C11", Seed: seed, Case: i})
			}
			js = withE2E(func(string, uint64) []Job { return js }, "C11", []string{"hostile"}, 240, 8)(tier, seed)
			return js
		}})
	add(PropSpec{ID: "C13", Level: "exploration", Classes: []string{"enum", "crash", "hang", "deadlock"},
		Rule: "page-by-page enumerations (READDIR and READDIRPLUS) of directories of 10 shapes (empty ... multi-block, freed slots, long names) with every count/dircount/maxcount class, resumption from every cookie previously returned, adds/removes between pages and a concurrent mutator; every directory left behind by concurrent histories (creations/renames racing on few names, half-freed inodes handed out) and by directed abort-window histories is enumerated page by page as well; distinct = distinct (shape, procedure, count class, dircount class) combinations in runs with >= 1 multi-page enumeration",
		Plan: func(tier string, seed uint64) []Job {
			n := 60
			if tier == "thorough" {
				n = 2400
			}
			var js []Job
			for i := 0; i < n; i++ {
				js = append(js, Job{Engine: "enum", Profile: "C13", Seed: seed, Case: i})
			}
			// directories as concurrent and directed histories leave them
			return withWindow(withConc(func(string, uint64) []Job { return js }, "C13", 16, 400, false), "C13")(tier, seed)
		}})
	add(PropSpec{ID: "C19", Level: "exploration", Classes: []string{"limit", "crash"},
		Rule: "names of length limit-2..limit+2, 255, 256, 1000+ (CREATE/MKDIR/SYMLINK/RENAME, then LOOKUP/list/rename/restart); WRITEs of wtpref, wtmax-1, wtmax, wtmax+1, 2*wtmax bytes at six offsets and three stability levels with read-back; file sizes maxfilesize-4097..+4097 and up to 2^64-1 by WRITE and SETATTR with reads, restart, truncation; beyond => error and unchanged tree/free counts; distinct = distinct (limit, delta, procedure, outcome) cases",
		Plan: func(tier string, seed uint64) []Job {
			n := 12
			if tier == "thorough" {
				n = 1200
			}
			var js []Job
			for i := 0; i < n; i++ {
				js = append(js, Job{Engine: "limits", Profile: "C19", Seed: seed, Case: i})
			}
			return js
		}})
	return m
}

func init() {
	_ = fmt.Sprint
}
