package main

// C19: boundary differential at the limits announced by FSINFO / PATHCONF.
// The limits are read from the replies, not hard-coded.

import (
	"strings"
	"fmt"
)

type LimRes struct {
	Viol   []Violation
	Cases  int
	Keys   map[string]bool
	Sample []string
	Lim    Limits
}

func runLimits(seed uint64, cas int, tier string) *LimRes {
	res := &LimRes{Keys: map[string]bool{}}
	rng := NewRng(mix(seed, uint64(cas)+424242))
	p := Profile{Name: "C19", DiskBlocks: 60000, Unstable: cas%2 == 0, RPC: cas%3 == 2, AfterFail: true}
	d := NewCDisk(p.DiskBlocks)
	srv := StartSrv(d, SrvOpts{Unstable: p.Unstable, RPC: p.RPC})
	sres := &SeqRes{Stats: Counter{}, States: map[string]bool{}, DeadProbes: Counter{}}
	s := &Sess{p: p, rng: rng, srv: srv, res: sres, inumSeen: map[uint64]int{}}
	viol := func(f string, a ...interface{}) {
		if len(res.Viol) < 20 {
			res.Viol = append(res.Viol, Violation{Class: "limit", Msg: fmt.Sprintf(f, a...)})
		}
	}
	lim, err := limitsOf(srv.API, srv.Root)
	if err != nil {
		viol("%v", err)
		return res
	}
	res.Lim = lim
	s.m = NewModel(srv.Root, lim)
	s.names = namePool
	note := func(limit string, delta int64, proc string, ok bool) {
		res.Cases++
		res.Keys[fmt.Sprintf("%s/%+d/%s/%v", limit, delta, proc, ok)] = true
	}
	if lim.NameMax <= 0 || lim.WtMax == 0 || lim.MaxFileSize == 0 {
		viol("announced limits are not usable: %+v", lim)
		return res
	}

	// ---- names ---------------------------------------------------------
	sub := s.exec(&Op{K: OpMkdir, H: srv.Root, Name: "names"})
	dfh := sub.FH
	if sub.Stat != stOK {
		viol("MKDIR failed: %d", sub.Stat)
		return res
	}
	deltas := []int{-2, -1, 0, 1, 2, 255 - lim.NameMax, 256 - lim.NameMax, 1000}
	ch := byte('a')
	for _, dl := range deltas {
		L := lim.NameMax + dl
		if L <= 0 {
			continue
		}
		for _, k := range []OpKind{OpCreate, OpMkdir, OpSymlink} {
			ch++
			if ch > 'z' {
				ch = 'a'
			}
			name := longName(L, ch)
			r := s.exec(&Op{K: k, H: dfh, Name: name, Target: "target"})
			within := L <= lim.NameMax
			note("name_max", int64(dl), k.String(), r.Stat == stOK)
			if within && r.Stat != stOK {
				viol("%s of a name of length %d (announced name_max %d) fails with status %d", k, L, lim.NameMax, r.Stat)
				continue
			}
			if !within && r.Stat == stOK {
				viol("%s of a name of length %d succeeds although name_max is %d", k, L, lim.NameMax)
			}
			if r.Stat != stOK {
				continue
			}
			// normal behaviour afterwards: lookup, listing (not truncated), rename, remove
			if lk := s.exec(&Op{K: OpLookup, H: dfh, Name: name}); lk.Stat != stOK {
				viol("LOOKUP of the %d-byte name just created fails: %d", L, lk.Stat)
			}
			if L > 1 {
				if lk := doOp(srv.API, &Op{K: OpLookup, H: dfh, Name: name[:L-1]}); lk.Stat == stOK {
					viol("LOOKUP of the %d-byte prefix of a %d-byte name succeeds (name stored truncated?)", L-1, L)
				}
			}
			found := false
			ents, _ := listDir(srv.API, dfh, &WalkErr{}, "names")
			for _, e := range ents {
				if e.Name == name {
					found = true
				}
			}
			if !found {
				viol("the %d-byte name is not listed by READDIR/READDIRPLUS", L)
			}
			other := longName(L, ch) // same name
			other = other[:L-1] + "#"
			if rn := s.exec(&Op{K: OpRename, H: dfh, Name: name, H2: dfh, Name2: other}); rn.Stat != stOK {
				viol("RENAME to another %d-byte name fails: %d", L, rn.Stat)
			} else {
				note("name_max", int64(dl), "RENAME", true)
				s.exec(&Op{K: OpRename, H: dfh, Name: other, H2: dfh, Name2: name})
			}
		}
	}
	// rename of a short name to names around the limit
	s.exec(&Op{K: OpCreate, H: dfh, Name: "short"})
	for _, dl := range []int{-1, 0, 1, 2} {
		L := lim.NameMax + dl
		to := longName(L, 'R')
		r := s.exec(&Op{K: OpRename, H: dfh, Name: "short", H2: dfh, Name2: to})
		note("name_max", int64(dl), "RENAME-to", r.Stat == stOK)
		if (L <= lim.NameMax) != (r.Stat == stOK) {
			viol("RENAME to a name of length %d (name_max %d): status %d", L, lim.NameMax, r.Stat)
		}
		if r.Stat == stOK {
			s.exec(&Op{K: OpRename, H: dfh, Name: to, H2: dfh, Name2: "short"})
		}
	}
	s.restart()
	s.walkCompare("dump", "after the name cases and a restart")

	// ---- write sizes ---------------------------------------------------
	b := uint64(BlockSize)
	wsizes := []int64{-1, 0, 1}
	offs := []uint64{0, 1, b - 1, 8*b - 5, (8+512)*b - b - 3, 600 * b}
	fi := doOp(srv.API, &Op{K: OpFsinfo, H: srv.Root})
	sizes := []uint64{uint64(fi.Wtpref)}
	for _, dl := range wsizes {
		sizes = append(sizes, uint64(int64(lim.WtMax)+dl))
	}
	sizes = append(sizes, 2*lim.WtMax, lim.WtMax+b)
	fidx := 0
	for _, sz := range sizes {
		for _, off := range offs {
			if tier != "thorough" && rng.Intn(2) == 0 && sz != lim.WtMax && sz != lim.WtMax+1 {
				continue
			}
			fidx++
			cr := s.exec(&Op{K: OpCreate, H: srv.Root, Name: fmt.Sprintf("w%d", fidx)})
			if cr.Stat != stOK {
				viol("CREATE failed: %d", cr.Stat)
				break
			}
			s.nextUid++
			st := rng.Intn(3)
			w := s.exec(&Op{K: OpWrite, H: cr.FH, Off: off, Count: uint32(sz), DataLen: uint32(sz), Uid: s.nextUid, Stable: st})
			within := sz <= lim.WtMax
			note("wtmax", int64(sz)-int64(lim.WtMax), fmt.Sprintf("WRITE@%s", offClass(off)), w.Stat == stOK)
			if within && (w.Stat != stOK || uint64(w.Count) != sz) {
				viol("WRITE of %d bytes (announced wtmax %d) at offset %d stable=%d: status %d count %d", sz, lim.WtMax, off, st, w.Stat, w.Count)
			}
			if !within && w.Stat == stOK {
				viol("WRITE of %d bytes succeeds (count %d) although wtmax is %d", sz, w.Count, lim.WtMax)
			}
			// read back (the model checks the bytes)
			for ro := off; ro < off+sz && w.Stat == stOK; ro += 64 * 1024 {
				s.exec(&Op{K: OpRead, H: cr.FH, Off: ro, Count: 64 * 1024})
			}
			s.exec(&Op{K: OpRemove, H: srv.Root, Name: fmt.Sprintf("w%d", fidx)})
		}
	}
	s.srv.WaitIdle()
	s.fullCheck("dump", "after the write-size cases")

	// ---- names of multi-byte characters: the limit counts bytes -----------------
	if mb := s.exec(&Op{K: OpMkdir, H: srv.Root, Name: "multibyte"}); mb.Stat == stOK {
		for _, dl := range []int{-2, -1, 0, 1, 2, 8} {
			L := lim.NameMax + dl
			name := strings.Repeat("\u00e9", L/2) // 2 bytes each
			if L%2 == 1 {
				name += "x"
			}
			for _, k := range []OpKind{OpCreate, OpSymlink, OpMkdir} {
				r := s.exec(&Op{K: k, H: mb.FH, Name: name + string(rune('a'+int(k)%20)), Target: "t"})
				_ = r
			}
			r := s.exec(&Op{K: OpCreate, H: mb.FH, Name: name})
			note("name_max(multibyte)", int64(dl), "CREATE", r.Stat == stOK)
			if (len(name) <= lim.NameMax) != (r.Stat == stOK) {
				viol("CREATE of a name of %d bytes (%d characters; name_max %d): status %d", len(name), len([]rune(name)), lim.NameMax, r.Stat)
			}
		}
		s.restart()
		s.exec(&Op{K: OpReaddirplus, H: mb.FH, Count: 1 << 20, Dircount: 1 << 20})
		s.exec(&Op{K: OpCreate, H: mb.FH, Name: "after"})
	}
	// ---- CREATE with an initial size -----------------------------------------
	for i, sz := range []uint64{100, lim.MaxFileSize - 1, lim.MaxFileSize, lim.MaxFileSize + 1, lim.MaxFileSize + 4096, 1 << 40, 1 << 63, ^uint64(0)} {
		name := fmt.Sprintf("crsz%d", i)
		cr := s.exec(&Op{K: OpCreate, H: srv.Root, Name: name, Mode: i % 2, SetSize: true, Size: sz})
		note("maxfilesize", clampDelta(sz, lim.MaxFileSize), "CREATE(size)", cr.Stat == stOK)
		if cr.Stat == stOK {
			ga := s.exec(&Op{K: OpGetattr, H: cr.FH})
			if ga.Stat == stOK && ga.Size > lim.MaxFileSize {
				viol("CREATE with initial size %d leaves a file of %d bytes although maxfilesize is %d", sz, ga.Size, lim.MaxFileSize)
			}
			s.exec(&Op{K: OpRead, H: cr.FH, Off: 0, Count: 4096})
			if ga.Size > 0 {
				s.exec(&Op{K: OpRead, H: cr.FH, Off: ga.Size - 1, Count: 4096})
			}
			s.exec(&Op{K: OpRemove, H: srv.Root, Name: name})
		}
	}
	// ---- many names of the maximum length in one directory -----------------
	// (an entry of a long name needs more reply bytes than directory bytes:
	// anything that sizes a scan of the directory by its length stops early)
	if md := s.exec(&Op{K: OpMkdir, H: srv.Root, Name: "maxnames"}); md.Stat == stOK {
		var names []string
		for i := 0; i < 44; i++ {
			n := fmt.Sprintf("%03d", i) + longName(lim.NameMax-3-(i%3), 'M')
			names = append(names, n)
			if r := s.exec(&Op{K: OpCreate, H: md.FH, Name: n}); r.Stat != stOK {
				viol("name #%d of %d bytes (announced name_max %d) in one directory: CREATE status %d", i, len(n), lim.NameMax, r.Stat)
				break
			}
		}
		for round := 0; round < 3; round++ {
			switch round {
			case 1: // a request that fails after it has locked the directory
				s.exec(&Op{K: OpCreate, H: md.FH, Name: names[0]})
			case 2:
				s.restart()
			}
			for i, n := range names {
				if r := s.exec(&Op{K: OpLookup, H: md.FH, Name: n}); r.Stat != stOK {
					viol("name #%d of %d bytes cannot be looked up (status %d) although it was created (round %d)", i, len(n), r.Stat, round)
					break
				}
			}
			s.exec(&Op{K: OpCreate, H: md.FH, Name: names[len(names)-1]}) // must be refused: it exists
			s.exec(&Op{K: OpReaddir, H: md.FH, Count: 1 << 20})
			// names of the maximum length "behave normally": the directory can be
			// listed page by page with the small limits real clients use
			for _, pl := range []struct {
				plus       bool
				cnt, dcnt  uint32
			}{{true, 300, 100}, {true, 1000, 64}, {true, 400, 4096}, {false, 200, 0}, {false, 300, 0}}[round:] {
				seen := map[string]int{}
				cookie, calls, eof := uint64(0), 0, false
				for !eof && calls <= len(names)+5 {
					k := OpReaddir
					if pl.plus {
						k = OpReaddirplus
					}
					r := s.exec(&Op{K: k, H: md.FH, Cookie: cookie, Count: pl.cnt, Dircount: pl.dcnt})
					calls++
					if r.Stat != stOK {
						viol("directory of %d names of the maximum length: %s count=%d dircount=%d at cookie %d: status %d", len(names), k, pl.cnt, pl.dcnt, cookie, r.Stat)
						break
					}
					if len(r.Ents) == 0 && !r.Eof {
						viol("directory of %d names of the maximum length (name_max %d): %s count=%d dircount=%d at cookie %d returns no entry and not end-of-directory: the names cannot be listed", len(names), lim.NameMax, k, pl.cnt, pl.dcnt, cookie)
						break
					}
					for _, e := range r.Ents {
						seen[e.Name]++
						cookie = e.Cookie
					}
					eof = r.Eof
				}
				if eof {
					for _, n := range names {
						if seen[n] != 1 {
							viol("directory of %d names of the maximum length: name of %d bytes listed %d times by a page-by-page enumeration (plus=%v count=%d dircount=%d)", len(names), len(n), seen[n], pl.plus, pl.cnt, pl.dcnt)
							break
						}
					}
				} else if len(res.Viol) == 0 {
					viol("directory of %d names of the maximum length: enumeration (plus=%v count=%d dircount=%d) did not end within %d calls", len(names), pl.plus, pl.cnt, pl.dcnt, calls)
				}
			}
		}
		// no_trunc: a name beyond the maximum must never be taken for the existing
		// name that equals its first name_max bytes
		for i := 0; i < len(names) && i < 7; i += 3 {
			base := names[i] // exactly name_max bytes
			if len(base) != lim.NameMax {
				continue
			}
			for _, sfx := range []string{"x", longName(16, 'y'), longName(200, 'z')} {
				long := base + sfx
				if r := s.exec(&Op{K: OpLookup, H: md.FH, Name: long}); r.Stat == stOK {
					viol("LOOKUP of a name of %d bytes (name_max %d) succeeds: it is answered with the entry named by its first %d bytes", len(long), lim.NameMax, lim.NameMax)
				}
				if r := s.exec(&Op{K: OpRename, H: md.FH, Name: long, H2: md.FH, Name2: "renamed-over-long"}); r.Stat == stOK {
					viol("RENAME from a name of %d bytes (name_max %d) succeeds", len(long), lim.NameMax)
				}
				if r := s.exec(&Op{K: OpRemove, H: md.FH, Name: long}); r.Stat == stOK {
					viol("REMOVE of a name of %d bytes (name_max %d) succeeds", len(long), lim.NameMax)
				}
				if r := s.exec(&Op{K: OpCreate, H: md.FH, Name: long}); r.Stat == stOK {
					viol("CREATE of a name of %d bytes (name_max %d) succeeds", len(long), lim.NameMax)
				}
			}
			if r := s.exec(&Op{K: OpLookup, H: md.FH, Name: base}); r.Stat != stOK {
				viol("name of %d bytes can no longer be looked up (status %d) after requests that named over-long extensions of it", len(base), r.Stat)
			}
		}
		note("namemax", 1, "over-long extensions of existing maximum-length names", false)
		note("namemax", 0, "44 names of the maximum length in one directory", true)
		for _, n := range names {
			s.exec(&Op{K: OpRemove, H: md.FH, Name: n})
		}
		s.exec(&Op{K: OpRmdir, H: srv.Root, Name: "maxnames"})
	}
	// ---- file sizes ----------------------------------------------------
	mx := lim.MaxFileSize
	type fcase struct {
		byWrite bool
		size    uint64 // resulting size requested
	}
	var fcs []fcase
	for _, dl := range []int64{-int64(b) - 1, -int64(b), -1, 0, 1, 2, int64(b), int64(b) + 1} {
		fcs = append(fcs, fcase{true, uint64(int64(mx) + dl)}, fcase{false, uint64(int64(mx) + dl)})
	}
	for _, v := range []uint64{1 << 32, 1<<32 + 1, 1 << 40, 1 << 62, 1 << 63, 1<<63 + 1, ^uint64(0) - 1, ^uint64(0)} {
		fcs = append(fcs, fcase{true, v}, fcase{false, v})
	}
	for i, fc := range fcs {
		name := fmt.Sprintf("big%d", i)
		cr := s.exec(&Op{K: OpCreate, H: srv.Root, Name: name})
		if cr.Stat != stOK {
			viol("CREATE failed: %d", cr.Stat)
			break
		}
		var r *Res
		within := fc.size <= mx
		if fc.byWrite {
			// one byte so that the file ends exactly at size
			s.nextUid++
			n := uint32(1 + rng.Intn(3))
			if uint64(n) > fc.size {
				n = 1
			}
			r = s.exec(&Op{K: OpWrite, H: cr.FH, Off: fc.size - uint64(n), Count: n, DataLen: n, Uid: s.nextUid, Stable: 2})
			note("maxfilesize", clampDelta(fc.size, mx), "WRITE", r.Stat == stOK)
		} else {
			// alone, with "set mtime to server time" (what truncate(2) sends) and
			// with client-supplied times
			op := &Op{K: OpSetattr, H: cr.FH, SetSize: true, Size: fc.size}
			switch i % 6 {
			case 1:
				op.SetMtime = 1
			case 3:
				op.SetMtime, op.Mtime = 2, [2]uint32{77, 5}
				op.SetAtime, op.Atime = 2, [2]uint32{78, 6}
			case 5:
				op.SetAtime = 1
			}
			r = s.exec(op)
			note("maxfilesize", clampDelta(fc.size, mx), fmt.Sprintf("SETATTR(times:%d)", i%6), r.Stat == stOK)
		}
		if within && r.Stat != stOK {
			viol("file size %d (announced maxfilesize %d) by %s: status %d", fc.size, mx, map[bool]string{true: "WRITE", false: "SETATTR"}[fc.byWrite], r.Stat)
		}
		if !within && r.Stat == stOK {
			viol("file size %d accepted by %s although maxfilesize is %d", fc.size, map[bool]string{true: "WRITE", false: "SETATTR"}[fc.byWrite], mx)
		}
		if r.Stat == stOK {
			// behaves normally afterwards
			s.exec(&Op{K: OpGetattr, H: cr.FH})
			if fc.size >= 10 {
				s.exec(&Op{K: OpRead, H: cr.FH, Off: fc.size - 10, Count: 100})
			}
			s.exec(&Op{K: OpRead, H: cr.FH, Off: fc.size, Count: 100})
			s.exec(&Op{K: OpRead, H: cr.FH, Off: fc.size / 2, Count: 4096})
			if i%3 == 0 {
				s.restart()
				s.exec(&Op{K: OpGetattr, H: cr.FH})
				if fc.size >= 10 {
					s.exec(&Op{K: OpRead, H: cr.FH, Off: fc.size - 10, Count: 100})
				}
			}
			if i%2 == 0 {
				s.exec(&Op{K: OpSetattr, H: cr.FH, SetSize: true, Size: uint64(rng.Intn(9000))})
				s.exec(&Op{K: OpRead, H: cr.FH, Off: 0, Count: 16384})
			}
		}
		s.exec(&Op{K: OpRemove, H: srv.Root, Name: name})
		if len(sres.Viol) > 0 {
			break
		}
	}
	s.srv.WaitIdle()
	s.fullCheck("dump", "after the file-size cases")
	for _, v := range sres.Viol {
		// replies and state that disagree with the reference at a limit are
		// limit violations (beyond => error and no effect, within => normal)
		res.Viol = append(res.Viol, Violation{Class: "limit", Msg: v.Msg, Op: v.Op})
	}
	if len(sres.OpLog) > 0 {
		res.Sample = sres.OpLog[:minInt(len(sres.OpLog), 10)]
	}
	srv.WaitIdle()
	srv.Shutdown()
	return res
}

func clampDelta(v, lim uint64) int64 {
	if v >= lim {
		if v-lim > 1<<20 {
			return 1 << 20
		}
		return int64(v - lim)
	}
	if lim-v > 1<<20 {
		return -(1 << 20)
	}
	return -int64(lim - v)
}

func offClass(off uint64) string {
	switch {
	case off == 0:
		return "0"
	case off < BlockSize:
		return "unaligned"
	case off < 8*BlockSize:
		return "direct-indirect"
	case off < (8+512)*BlockSize:
		return "indirect-dindirect"
	}
	return "dindirect"
}
