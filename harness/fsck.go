package main

// On-disk checker (DESIGN §2.3).  Reads the *logical* disk of a running (or
// freshly recovered) server through FsState.Txn.Load (in-memory log, on-disk
// log, home block) and decodes it with the repository's own decoders, so a
// self-consistent change of an on-disk format is not an alarm.

import (
	"bytes"
	"fmt"
	"reflect"
	"sort"
	"unsafe"

	"github.com/mit-pdos/go-journal/addr"
	"github.com/mit-pdos/go-journal/alloc"
	"github.com/mit-pdos/go-journal/buf"
	"github.com/mit-pdos/go-journal/common"
	"github.com/mit-pdos/go-nfsd/dcache"
	"github.com/mit-pdos/go-nfsd/dir"
	"github.com/mit-pdos/go-nfsd/fstxn"
	"github.com/mit-pdos/go-nfsd/inode"
)

type FsckOpts struct {
	// AllowShrinking: free inodes that still hold blocks below ShrinkSize are
	// legal (crash images cut inside a multi-transaction free).
	AllowShrinking bool
	CheckCaches    bool // C10: cached inodes / name caches / allocators = disk
	ZeroScan       bool // diagnostic: free data blocks are zero
}

type FsckRes struct {
	Errs        []string // C04 well-formedness
	Leaks       []string // C05 conservation (marked but unreachable, allocator != bitmap, half-freed leftovers)
	CacheErrs   []string // C10 cache/disk coherence
	NInodes     int      // in-use inodes
	NDirs       int
	NBlocks     int // owned data blocks
	NIndirect   int // indirect/double-indirect blocks owned
	Shrinking   []uint64
	FreeBlocks  uint64 // per logical bitmap
	FreeInodes  uint64
	MemFreeBlk  uint64 // per in-memory allocator
	MemFreeIno  uint64
	NonZeroFree int
	StateHash   string
	MaxDepth    int
	CachedIno   int
	CachedNames int
}

func (r *FsckRes) errf(f string, a ...interface{}) {
	if len(r.Errs) < 30 {
		r.Errs = append(r.Errs, fmt.Sprintf(f, a...))
	}
}
func (r *FsckRes) leakf(f string, a ...interface{}) {
	if len(r.Leaks) < 30 {
		r.Leaks = append(r.Leaks, fmt.Sprintf(f, a...))
	}
}
func (r *FsckRes) cachef(f string, a ...interface{}) {
	if len(r.CacheErrs) < 30 {
		r.CacheErrs = append(r.CacheErrs, fmt.Sprintf(f, a...))
	}
}

func allocBitmap(a *alloc.Alloc) []byte {
	v := reflect.ValueOf(a).Elem().FieldByName("bitmap")
	p := unsafe.Pointer(v.UnsafeAddr())
	return *(*[]byte)(p)
}

func bit(bm []byte, n uint64) bool { return bm[n/8]&(1<<(n%8)) != 0 }

type fsckCtx struct {
	st   *fstxn.FsState
	res  *FsckRes
	blk  map[uint64][]byte // cache of logical blocks read
	own  map[uint64]uint64 // block -> owning inode
	ds   uint64
	maxb uint64
}

func (c *fsckCtx) read(bn uint64) []byte {
	if b, ok := c.blk[bn]; ok {
		return b
	}
	b := c.st.Txn.Load(addr.MkAddr(bn, 0), common.NBITBLOCK).Data
	c.blk[bn] = b
	return b
}

func (c *fsckCtx) claim(bn uint64, inum uint64, what string) bool {
	if bn < c.ds || bn >= c.maxb {
		c.res.errf("inode %d: %s pointer %d outside the data region [%d,%d)", inum, what, bn, c.ds, c.maxb)
		return false
	}
	if o, ok := c.own[bn]; ok {
		c.res.errf("block %d has two owners: inode %d and inode %d (%s)", bn, o, inum, what)
		return false
	}
	c.own[bn] = inum
	return true
}

// blockMap returns logical block index -> block number for everything the
// inode points to, claiming ownership on the way.
func (c *fsckCtx) blockMap(ip *inode.Inode) map[uint64]uint64 {
	m := map[uint64]uint64{}
	blks := ip.VerifBlks()
	for i := uint64(0); i < inode.NDIRECT; i++ {
		if blks[i] != 0 && c.claim(blks[i], ip.Inum, "direct") {
			m[i] = blks[i]
		}
	}
	rdInd := func(root uint64, base uint64, what string) {
		b := c.read(root)
		for k := uint64(0); k < inode.NBLKBLK; k++ {
			p := leU64(b[k*8:])
			if p != 0 && c.claim(p, ip.Inum, what) {
				m[base+k] = p
			}
		}
	}
	if r := blks[inode.INDIRECT]; r != 0 && c.claim(r, ip.Inum, "indirect root") {
		c.res.NIndirect++
		rdInd(r, inode.NDIRECT, "indirect")
	}
	if r := blks[inode.DINDIRECT]; r != 0 && c.claim(r, ip.Inum, "double-indirect root") {
		c.res.NIndirect++
		b := c.read(r)
		for k := uint64(0); k < inode.NBLKBLK; k++ {
			p := leU64(b[k*8:])
			if p != 0 && c.claim(p, ip.Inum, "double-indirect level 1") {
				c.res.NIndirect++
				rdInd(p, inode.NDIRECT+inode.NBLKBLK+k*inode.NBLKBLK, "double-indirect")
			}
		}
	}
	return m
}

func leU64(b []byte) uint64 {
	return uint64(b[0]) | uint64(b[1])<<8 | uint64(b[2])<<16 | uint64(b[3])<<24 | uint64(b[4])<<32 | uint64(b[5])<<40 | uint64(b[6])<<48 | uint64(b[7])<<56
}

type dirEntry struct {
	inum uint64
	name string
	off  uint64
}

func (c *fsckCtx) readDir(ip *inode.Inode, bm map[uint64]uint64) []dirEntry {
	var out []dirEntry
	if ip.Size%dir.DIRENTSZ != 0 {
		c.res.errf("directory %d: size %d is not a multiple of the entry size", ip.Inum, ip.Size)
	}
	for off := uint64(0); off+dir.DIRENTSZ <= ip.Size; off += dir.DIRENTSZ {
		bn, ok := bm[off/BlockSize]
		if !ok {
			continue // hole = empty slots
		}
		b := c.read(bn)
		raw := b[off%BlockSize : off%BlockSize+dir.DIRENTSZ]
		var inum uint64
		var name string
		func() {
			defer func() {
				if e := recover(); e != nil {
					c.res.errf("directory %d: entry at offset %d cannot be decoded: %v", ip.Inum, off, e)
					inum = 0
				}
			}()
			inum, name = dir.VerifDecodeDirEnt(raw)
		}()
		if inum != 0 {
			out = append(out, dirEntry{inum, name, off})
		}
	}
	return out
}

func runFsck(st *fstxn.FsState, o FsckOpts) *FsckRes {
	res := &FsckRes{}
	sup := st.Super
	c := &fsckCtx{st: st, res: res, blk: map[uint64][]byte{}, own: map[uint64]uint64{}, ds: uint64(sup.DataStart()), maxb: uint64(sup.MaxBnum())}

	// bitmaps
	var bbm []byte
	for i := uint64(0); i < sup.NBlockBitmap; i++ {
		bbm = append(bbm, c.read(uint64(sup.BitmapBlockStart())+i)...)
	}
	var ibm []byte
	for i := uint64(0); i < sup.NInodeBitmap; i++ {
		ibm = append(ibm, c.read(uint64(sup.BitmapInodeStart())+i)...)
	}

	// inodes
	ninode := uint64(sup.NInode())
	inodes := map[uint64]*inode.Inode{}
	bmaps := map[uint64]map[uint64]uint64{}
	zero128 := make([]byte, common.INODESZ)
	for inum := uint64(0); inum < ninode; inum++ {
		a := sup.Inum2Addr(inum)
		blk := c.read(a.Blkno)
		raw := blk[a.Off/8 : a.Off/8+common.INODESZ]
		if bytes.Equal(raw, zero128) {
			if bit(ibm, inum) && inum > 1 {
				res.errf("inode %d is marked in use but is blank", inum)
			}
			continue
		}
		ip := inode.Decode(buf.MkBufLoad(a, common.INODESZ*8, blk), inum)
		used := ip.Kind != inode.NF3FREE
		if used != bit(ibm, inum) && inum > 1 {
			res.errf("inode %d: kind %d but bitmap bit %v", inum, ip.Kind, bit(ibm, inum))
		}
		hasPtr := false
		for _, b := range ip.VerifBlks() {
			if b != 0 {
				hasPtr = true
			}
		}
		if !used {
			if hasPtr {
				// a free inode that still holds blocks: legal only while a
				// multi-transaction free is in progress
				if ip.ShrinkSize == 0 {
					res.errf("free inode %d holds blocks but ShrinkSize is 0", inum)
				}
				res.Shrinking = append(res.Shrinking, inum)
				if !o.AllowShrinking {
					res.leakf("free inode %d still holds blocks (ShrinkSize %d) although no free is in progress", inum, ip.ShrinkSize)
				}
				bmaps[inum] = c.blockMap(ip)
				limit := ip.ShrinkSize
				for lb := range bmaps[inum] {
					if lb >= limit {
						res.errf("free inode %d: block mapped at index %d >= ShrinkSize %d", inum, lb, limit)
					}
				}
			}
			continue
		}
		inodes[inum] = ip
		k := int(ip.Kind)
		if k != KReg && k != KDir && k != KLnk {
			res.errf("inode %d has kind %d", inum, ip.Kind)
		}
		if ip.Nlink < 1 {
			res.errf("inode %d in use with link count %d", inum, ip.Nlink)
		}
		if ip.Size > inode.MaxFileSize() {
			res.errf("inode %d: size %d beyond the maximum file size", inum, ip.Size)
		}
		bm := c.blockMap(ip)
		bmaps[inum] = bm
		limit := (ip.Size + BlockSize - 1) / BlockSize
		if ip.ShrinkSize > limit {
			limit = ip.ShrinkSize
			res.Shrinking = append(res.Shrinking, inum)
			if !o.AllowShrinking {
				res.leakf("inode %d is still shrinking (size %d, ShrinkSize %d blocks) although no free is in progress", inum, ip.Size, ip.ShrinkSize)
			}
		}
		for lb := range bm {
			if lb >= limit {
				res.errf("inode %d: block mapped at index %d but size %d / ShrinkSize %d", inum, lb, ip.Size, ip.ShrinkSize)
			}
		}
	}
	res.NInodes = len(inodes)
	res.NBlocks = len(c.own)

	// directory tree
	root := inodes[common.ROOTINUM]
	reached := map[uint64]bool{}
	treeHash := []string{}
	if root == nil || int(root.Kind) != KDir {
		res.errf("root inode is not a directory")
	} else {
		type qe struct {
			inum, parent uint64
			depth        int
		}
		q := []qe{{common.ROOTINUM, common.ROOTINUM, 0}}
		reached[common.ROOTINUM] = true
		for len(q) > 0 {
			e := q[0]
			q = q[1:]
			ip := inodes[e.inum]
			res.NDirs++
			if e.depth > res.MaxDepth {
				res.MaxDepth = e.depth
			}
			ents := c.readDir(ip, bmaps[e.inum])
			names := map[string]bool{}
			var dot, dotdot *dirEntry
			for i := range ents {
				de := &ents[i]
				if names[de.name] {
					res.errf("directory %d: name %s twice", e.inum, shortName(de.name))
				}
				names[de.name] = true
				if de.off == 0 {
					dot = de
					if de.name != "." || de.inum != e.inum {
						res.errf("directory %d: slot 0 is (%s, %d), want (\".\", %d)", e.inum, shortName(de.name), de.inum, e.inum)
					}
					continue
				}
				if de.off == dir.DIRENTSZ {
					dotdot = de
					if de.name != ".." || de.inum != e.parent {
						res.errf("directory %d: slot 1 is (%s, %d), want (\"..\", %d)", e.inum, shortName(de.name), de.inum, e.parent)
					}
					continue
				}
				if de.name == "." || de.name == ".." || de.name == "" || uint64(len(de.name)) > dir.MAXNAMELEN {
					res.errf("directory %d: ill-formed name %s at offset %d", e.inum, shortName(de.name), de.off)
				}
				t := inodes[de.inum]
				if t == nil {
					res.errf("directory %d: entry %s names inode %d, which is not in use", e.inum, shortName(de.name), de.inum)
					continue
				}
				if reached[de.inum] {
					res.errf("inode %d has more than one name (second: %s in directory %d)", de.inum, shortName(de.name), e.inum)
					continue
				}
				reached[de.inum] = true
				treeHash = append(treeHash, fmt.Sprintf("%d/%s=%d:%d:%d", e.inum, de.name, de.inum, t.Kind, t.Size))
				if int(t.Kind) == KDir {
					q = append(q, qe{de.inum, e.inum, e.depth + 1})
				}
			}
			if dot == nil {
				res.errf("directory %d has no \".\" entry", e.inum)
			}
			if dotdot == nil {
				res.errf("directory %d has no \"..\" entry", e.inum)
			}
		}
	}
	for inum := range inodes {
		if !reached[inum] {
			res.errf("inode %d (kind %d, size %d) is in use but has no name (orphan)", inum, inodes[inum].Kind, inodes[inum].Size)
			res.leakf("inode %d is marked in use but unreachable from the root", inum)
		}
	}

	// block bitmap vs ownership
	nbits := uint64(len(bbm)) * 8
	for bn := uint64(0); bn < nbits; bn++ {
		marked := bit(bbm, bn)
		inData := bn >= c.ds && bn < c.maxb
		if !inData {
			if !marked {
				res.errf("non-data block %d is not marked in the block bitmap", bn)
			}
			continue
		}
		_, owned := c.own[bn]
		if owned && !marked {
			res.errf("block %d is in use by inode %d but not marked in the bitmap", bn, c.own[bn])
		}
		if marked && !owned {
			res.leakf("block %d is marked in use but belongs to no inode", bn)
		}
		if !marked {
			res.FreeBlocks++
			if o.ZeroScan && !allZero(c.read(bn)) {
				res.NonZeroFree++
			}
		}
	}
	for inum := uint64(0); inum < ninode; inum++ {
		if !bit(ibm, inum) {
			res.FreeInodes++
		}
	}

	// in-memory allocators
	mb := allocBitmap(st.Balloc)
	mi := allocBitmap(st.Ialloc)
	res.MemFreeBlk = st.Balloc.NumFree()
	res.MemFreeIno = st.Ialloc.NumFree()
	if o.CheckCaches {
		if !bytes.Equal(mb, bbm) {
			n := 0
			for bn := uint64(0); bn < nbits && n < 5; bn++ {
				if bit(mb, bn) != bit(bbm, bn) {
					res.leakf("block %d: in-memory allocator says used=%v, on-disk bitmap says %v", bn, bit(mb, bn), bit(bbm, bn))
					n++
				}
			}
		}
		if !bytes.Equal(mi, ibm) {
			n := 0
			for inum := uint64(0); inum < ninode && n < 5; inum++ {
				if bit(mi, inum) != bit(ibm, inum) {
					res.leakf("inode %d: in-memory allocator says used=%v, on-disk bitmap says %v", inum, bit(mi, inum), bit(ibm, inum))
					n++
				}
			}
		}
		// cached inodes and name caches
		type ce struct {
			id  uint64
			obj interface{}
		}
		var ces []ce
		st.Icache.VerifEach(func(id uint64, obj interface{}) { ces = append(ces, ce{id, obj}) })
		for _, e := range ces {
			if e.obj == nil {
				continue
			}
			ip := e.obj.(*inode.Inode)
			res.CachedIno++
			a := sup.Inum2Addr(e.id)
			blk := c.read(a.Blkno)
			raw := blk[a.Off/8 : a.Off/8+common.INODESZ]
			if ip.Inum != e.id {
				res.cachef("cache slot %d holds inode %d", e.id, ip.Inum)
			}
			if !bytes.Equal(ip.Encode(), raw) {
				dk := inode.Decode(buf.MkBufLoad(a, common.INODESZ*8, blk), e.id)
				res.cachef("cached inode %d differs from the disk: cache {%v} disk {%v}", e.id, ip, dk)
			}
			if ip.Dcache != nil {
				dk := inodes[e.id]
				if dk == nil || int(dk.Kind) != KDir {
					// a name cache object survives the life of a directory in
					// the cached inode; it is only consulted for directories
					continue
				}
				// ownership was already claimed; re-read the directory
				ents := map[string]dirEntry{}
				for _, de := range c.readDir(dk, bmaps[e.id]) {
					ents[de.name] = de
				}
				n := 0
				ip.Dcache.VerifEach(func(name string, d dcache.Dentry) {
					n++
					res.CachedNames++
					de, ok := ents[name]
					if !ok {
						res.cachef("directory %d: name cache has %s -> %d, not on disk", e.id, shortName(name), d.Inum)
					} else if de.inum != d.Inum || de.off != d.Off {
						res.cachef("directory %d: name cache has %s -> (%d, off %d), disk has (%d, off %d)", e.id, shortName(name), d.Inum, d.Off, de.inum, de.off)
					}
				})
				if n != len(ents) {
					res.cachef("directory %d: name cache has %d names, disk has %d", e.id, n, len(ents))
				}
			}
		}
	}

	sort.Strings(treeHash)
	owned := make([]uint64, 0, len(c.own))
	for b := range c.own {
		owned = append(owned, b)
	}
	sortU64(owned)
	res.StateHash = hashStr(fmt.Sprint(owned)) + "-" + hashStr(fmt.Sprint(treeHash))
	return res
}

// diskFreeBlocks counts the free blocks according to the block bitmap on the
// logical disk (read through the journal) - independent of the running
// server's in-memory allocator.
func diskFreeBlocks(st *fstxn.FsState) uint64 {
	sup := st.Super
	maxb := uint64(sup.MaxBnum())
	var free uint64
	for i := uint64(0); i < sup.NBlockBitmap; i++ {
		b := st.Txn.Load(addr.MkAddr(uint64(sup.BitmapBlockStart())+i, 0), common.NBITBLOCK).Data
		for j, x := range b {
			base := i*common.NBITBLOCK + uint64(j)*8
			if base >= maxb {
				break
			}
			for k := uint64(0); k < 8 && base+k < maxb; k++ {
				if x&(1<<k) == 0 {
					free++
				}
			}
		}
	}
	return free
}
