package main

// Lock monitor and schedule perturbation (DESIGN §2.5).  Fed by the
// verif-tagged observation points in fstxn/shrinker.

import (
	"fmt"
	"math/rand/v2"
	"os"
	"runtime"
	"sort"
	"strings"
	"sync"
	"sync/atomic"
	"time"

	"github.com/mit-pdos/go-nfsd/fstxn"
	vh "github.com/mit-pdos/go-nfsd/util/verifhook"
)

type txnState struct {
	id      uint64
	gid     int64
	held    []uint64 // in acquisition order
	fresh   map[uint64]bool
	waiting uint64 // inum being waited for (0 = none)
	isShrink bool
	begins  int
}

type orderEdge struct {
	From, To uint64
	Site     string
	Count    int
}

type LockMon struct {
	mu       sync.Mutex
	on       bool
	txns     map[interface{}]*txnState
	owner    map[uint64]*txnState
	nextID   uint64
	edges    map[[2]uint64]*orderEdge
	acquires uint64
	multi    uint64 // acquires while holding something
	contended uint64
	aborts   uint64
	commits  uint64
	shrinkIters uint64
	failedCommits uint64
	fp       uint64 // fingerprint of the event sequence
	events   uint64
	// perturbation
	yieldSeed uint64
	yields    uint64
	// deadlock report
	deadlock string
	leakReported bool
	descending []string // descending non-fresh acquires (diagnostic)
	// per-goroutine retry accounting
	retry    map[int64]*retryState
	maxRetry int
	// C09
	abortDirty uint32
	sites    map[string]int
	wantSites bool
	clients  map[int64]int
	// directed schedules: park one goroutine at its n-th abort
	gateGid   int64
	gateN     int
	gateCnt   int
	gateHit   chan struct{}
	gateGo    chan struct{}
	gatePending bool
	// hook gate (ArmHookGate)
	hgGid        int64
	hgEv, hgN    int
	hgCnt        int
	hgHit, hgGo  chan struct{}
	shrinkHold   chan struct{}
	shrinkParked int
}

type retryState struct {
	begins  int
	commitsAtStart uint64
}

var mon = &LockMon{}

func (m *LockMon) Reset(yieldSeed uint64, wantSites bool) {
	m.mu.Lock()
	defer m.mu.Unlock()
	m.on = true
	m.txns = map[interface{}]*txnState{}
	m.owner = map[uint64]*txnState{}
	m.edges = map[[2]uint64]*orderEdge{}
	m.acquires, m.multi, m.contended, m.aborts, m.commits, m.shrinkIters, m.failedCommits = 0, 0, 0, 0, 0, 0, 0
	m.fp, m.events, m.yields = 0, 0, 0
	m.yieldSeed = yieldSeed
	m.deadlock = ""
	m.leakReported = false
	m.descending = nil
	m.retry = map[int64]*retryState{}
	m.maxRetry = 0
	m.sites = map[string]int{}
	m.wantSites = wantSites
	m.clients = map[int64]int{}
}

func (m *LockMon) Off() {
	m.mu.Lock()
	m.on = false
	m.mu.Unlock()
}

func init() {
	vh.Fn = hookEvent
}

func goid() int64 {
	var buf [64]byte
	n := runtime.Stack(buf[:], false)
	// "goroutine 123 ["
	s := string(buf[:n])
	s = strings.TrimPrefix(s, "goroutine ")
	var id int64
	for i := 0; i < len(s) && s[i] >= '0' && s[i] <= '9'; i++ {
		id = id*10 + int64(s[i]-'0')
	}
	return id
}

// callSite returns the first repository frame above fstxn (where the lock
// request comes from).
func callSite() string {
	pc := make([]uintptr, 24)
	n := runtime.Callers(4, pc)
	fr := runtime.CallersFrames(pc[:n])
	for {
		f, more := fr.Next()
		fn := f.Function
		if strings.Contains(fn, "go-nfsd/") && !strings.Contains(fn, "/fstxn.") && !strings.Contains(fn, "verifhook") {
			i := strings.LastIndex(fn, "/")
			return fn[i+1:]
		}
		if !more {
			break
		}
	}
	return "?"
}

func hookMark() { atomic.StoreUint32(&mon.abortDirty, 0) }

func hookDirtySinceMark() bool { return atomic.LoadUint32(&mon.abortDirty) != 0 }

// raceMode (C14): the monitor's own mutex and atomic counters would order the
// server's goroutines with each other at every hook event and hide data races
// from the race detector.  In this mode the hook only injects yields, decided
// by the runtime's lock-free per-thread generator.  Set before any server
// goroutine exists, never changed while they run.
var raceMode bool

func hookEvent(ev int, t interface{}, inum uint64) {
	if raceMode {
		switch ev {
		case vh.EvWant, vh.EvPreCommit, vh.EvPostCommit, vh.EvAbort, vh.EvShrinkIter:
			switch y := rand.Uint32() % 16; {
			case y < 4:
				runtime.Gosched()
			case y == 4:
				time.Sleep(time.Duration(20+rand.Uint32()%200) * time.Microsecond)
			}
		}
		return
	}
	progressTick()
	m := mon
	if ev == vh.EvAbort || ev == vh.EvCommitFailed {
		if op, ok := t.(*fstxn.FsTxn); ok && op.Atxn.Op.NDirty() > 0 {
			atomic.StoreUint32(&m.abortDirty, 1)
		}
	}
	m.mu.Lock()
	if !m.on {
		m.mu.Unlock()
		return
	}
	m.events++
	ts := m.txns[t]
	if ts == nil {
		m.nextID++
		ts = &txnState{id: m.nextID, gid: goid(), fresh: map[uint64]bool{}}
		m.txns[t] = ts
	}
	cl := m.clients[ts.gid]
	m.fp = (m.fp ^ (uint64(ev)<<56 | uint64(cl)<<48 | inum)) * 0x100000001B3
	doYield := false
	switch ev {
	case vh.EvBegin:
		// a goroutine serves one RPC at a time and every transaction releases
		// its locks at commit/abort: an older transaction of this goroutine
		// that still holds locks has been abandoned and will never release
		for _, o := range m.txns {
			if o != ts && o.gid == ts.gid && len(o.held) > 0 && !m.leakReported {
				m.leakReported = true
				m.deadlock = fmt.Sprintf("transaction %d of goroutine %d was abandoned while holding inode locks %v (a new transaction begins on the same goroutine): those locks are never released", o.id, o.gid, o.held)
			}
		}
		rs := m.retry[ts.gid]
		if rs == nil {
			rs = &retryState{commitsAtStart: m.commits}
			m.retry[ts.gid] = rs
		}
		if m.commits != rs.commitsAtStart {
			rs.begins = 0
			rs.commitsAtStart = m.commits
		}
		rs.begins++
		if rs.begins > m.maxRetry {
			m.maxRetry = rs.begins
		}
		if rs.begins > 1000 && m.deadlock == "" {
			// bounded retry, in logical steps: a retry is only ever justified
			// by somebody else's commit
			m.deadlock = fmt.Sprintf("livelock: one request (goroutine %d) has begun %d transactions in a row while no transaction anywhere committed", ts.gid, rs.begins)
		}
	case vh.EvShrinkIter:
		ts.isShrink = true
		m.shrinkIters++
		doYield = true
	case vh.EvFresh:
		ts.fresh[inum] = true
	case vh.EvWant:
		doYield = true
		site := ""
		if m.wantSites {
			site = callSite()
			m.sites[site]++
		}
		for _, h := range ts.held {
			if h == inum {
				m.deadlock = fmt.Sprintf("self-deadlock: transaction %d (goroutine %d, %s) requests inode %d which it already holds (held: %v)", ts.id, ts.gid, site, inum, ts.held)
			}
		}
		if len(ts.held) > 0 {
			m.multi++
			if !ts.fresh[inum] {
				for _, h := range ts.held {
					k := [2]uint64{h, inum}
					e := m.edges[k]
					if e == nil {
						e = &orderEdge{From: h, To: inum, Site: site}
						m.edges[k] = e
					}
					e.Count++
					if h > inum && len(m.descending) < 20 {
						m.descending = append(m.descending, fmt.Sprintf("%s: inode %d requested while holding %d", site, inum, h))
					}
				}
			}
		}
		if o := m.owner[inum]; o != nil && o != ts && o.gid == ts.gid && m.deadlock == "" {
			// the lock is held by an earlier transaction of the very goroutine
			// that now asks for it: that transaction cannot commit or abort
			// while its goroutine is blocked here
			m.deadlock = fmt.Sprintf("self-deadlock: transaction %d (goroutine %d, %s) requests inode %d, which transaction %d of the same goroutine holds (held: %v): the request waits on itself", ts.id, ts.gid, site, inum, o.id, o.held)
		}
		if o := m.owner[inum]; o != nil && o != ts {
			m.contended++
			ts.waiting = inum
			// wait-for chain
			seen := map[*txnState]bool{ts: true}
			chain := []string{fmt.Sprintf("txn %d (goroutine %d) holds %v wants %d", ts.id, ts.gid, ts.held, inum)}
			for x := o; x != nil; {
				chain = append(chain, fmt.Sprintf("txn %d (goroutine %d) holds %v wants %d", x.id, x.gid, x.held, x.waiting))
				if seen[x] {
					break
				}
				seen[x] = true
				if x.waiting == 0 {
					chain = nil
					break
				}
				nx := m.owner[x.waiting]
				if nx == ts {
					m.deadlock = "deadlock (wait-for cycle): " + strings.Join(chain, " | ")
					break
				}
				x = nx
				if x == nil {
					chain = nil
				}
			}
		}
	case vh.EvGot:
		// a yield while holding the lock lets other requests queue up on it,
		// so that the release is followed at once by their acquisition
		doYield = true
		ts.waiting = 0
		ts.held = append(ts.held, inum)
		m.owner[inum] = ts
		m.acquires++
	case vh.EvRelease:
		for i, h := range ts.held {
			if h == inum {
				ts.held = append(ts.held[:i], ts.held[i+1:]...)
				break
			}
		}
		if m.owner[inum] == ts {
			delete(m.owner, inum)
		}
		delete(ts.fresh, inum)
	case vh.EvPreCommit:
		doYield = true
	case vh.EvCommitted:
		m.commits++
	case vh.EvCommitFailed:
		m.failedCommits++
	case vh.EvPostCommit:
		// the locks are released, the reply is not built yet: a yield here
		// lets another request change what a late reader would see
		doYield = true
		delete(m.txns, t)
	case vh.EvAbort:
		m.aborts++
		doYield = true
		// the transaction object may be reused after Abort? no: a new Begin
		// makes a new object; forget this one once its locks are gone
		if len(ts.held) == 0 {
			delete(m.txns, t)
		}
	}
	var shold chan struct{}
	if ev == vh.EvShrinkIter && m.shrinkHold != nil {
		shold = m.shrinkHold
		m.shrinkParked++
	}
	var park chan struct{}
	// the abort event precedes the release of the locks: park at the Begin
	// that follows the n-th abort (the locks are free then and the request
	// is about to lock again in order)
	if m.gateGo != nil && ts.gid == m.gateGid {
		if ev == vh.EvAbort {
			m.gateCnt++
			if m.gateCnt == m.gateN {
				m.gatePending = true
			}
		} else if ev == vh.EvBegin && m.gatePending {
			m.gatePending = false
			park = m.gateGo
			close(m.gateHit)
		}
	}
	// hook gate: park this goroutine at the n-th event of one kind
	if m.hgGo != nil && ts.gid == m.hgGid && ev == m.hgEv {
		m.hgCnt++
		if m.hgCnt == m.hgN {
			park = m.hgGo
			close(m.hgHit)
		}
	}
	dl := m.deadlock
	var y uint64
	if doYield && m.yieldSeed != 0 {
		y = mix(m.yieldSeed, m.events)
		m.yields++
	}
	m.mu.Unlock()
	if dl != "" {
		reportDeadlock(dl)
	}
	if park != nil {
		<-park // released by the director once its script has run
	}
	if shold != nil {
		// background frees are held back (bounded) so that many of them are in
		// flight at the same time
		select {
		case <-shold:
		case <-time.After(3 * time.Second):
		}
	}
	if y != 0 {
		switch y % 16 {
		case 0, 1, 2, 3:
			runtime.Gosched()
		case 4, 5:
			for i := uint64(0); i < 2+(y>>8)%6; i++ {
				runtime.Gosched()
			}
		case 6:
			time.Sleep(time.Duration(20+(y>>8)%200) * time.Microsecond)
		}
	}
}

// reportDeadlock is called before the requester blocks: these locks have no
// timeout and are only released at commit/abort, so the state is final.
var deadlockHandler func(string)

func reportDeadlock(msg string) {
	if deadlockHandler != nil {
		deadlockHandler(msg)
		return
	}
	fmt.Fprintln(os.Stderr, "DEADLOCK: "+msg)
	buf := make([]byte, 1<<20)
	n := runtime.Stack(buf, true)
	os.Stderr.Write(buf[:n])
	os.Exit(3)
}

func (m *LockMon) SetClient(idx int) {
	g := goid()
	m.mu.Lock()
	m.clients[g] = idx
	m.mu.Unlock()
}

type LockStats struct {
	Acquires, Multi, Contended, Aborts, Commits, ShrinkIters, FailedCommits, Events, Yields uint64
	Edges      int
	Fingerprint string
	MaxRetry   int
	Descending []string
	Cycle      string
	Sites      map[string]int
	EdgeClasses map[string]int
}

func (m *LockMon) Stats() LockStats {
	m.mu.Lock()
	defer m.mu.Unlock()
	s := LockStats{Acquires: m.acquires, Multi: m.multi, Contended: m.contended, Aborts: m.aborts, Commits: m.commits,
		ShrinkIters: m.shrinkIters, FailedCommits: m.failedCommits, Events: m.events, Yields: m.yields, Edges: len(m.edges),
		Fingerprint: fmt.Sprintf("%016x", m.fp), MaxRetry: m.maxRetry, Descending: append([]string{}, m.descending...),
		Sites: map[string]int{}, EdgeClasses: map[string]int{}}
	for k, v := range m.sites {
		s.Sites[k] = v
	}
	for _, e := range m.edges {
		dir := "asc"
		if e.From > e.To {
			dir = "desc"
		}
		s.EdgeClasses[e.Site+"/"+dir]++
	}
	s.Cycle = m.findCycle()
	return s
}

// findCycle looks for a cycle in the lock-order graph (held -> requested).
func (m *LockMon) findCycle() string {
	adj := map[uint64][]uint64{}
	for k := range m.edges {
		adj[k[0]] = append(adj[k[0]], k[1])
	}
	for k := range adj {
		sortU64(adj[k])
	}
	nodes := make([]uint64, 0, len(adj))
	for k := range adj {
		nodes = append(nodes, k)
	}
	sortU64(nodes)
	color := map[uint64]int{}
	var stack []uint64
	var found []uint64
	var dfs func(u uint64) bool
	dfs = func(u uint64) bool {
		color[u] = 1
		stack = append(stack, u)
		for _, v := range adj[u] {
			if color[v] == 1 {
				i := len(stack) - 1
				for stack[i] != v {
					i--
				}
				found = append(append([]uint64{}, stack[i:]...), v)
				return true
			}
			if color[v] == 0 && dfs(v) {
				return true
			}
		}
		color[u] = 2
		stack = stack[:len(stack)-1]
		return false
	}
	for _, n := range nodes {
		if color[n] == 0 && dfs(n) {
			var parts []string
			for i := 0; i+1 < len(found); i++ {
				e := m.edges[[2]uint64{found[i], found[i+1]}]
				parts = append(parts, fmt.Sprintf("%d->%d (%s, %dx)", e.From, e.To, e.Site, e.Count))
			}
			sort.Strings(parts[:0])
			return strings.Join(parts, ", ")
		}
	}
	return ""
}

// NoteRPC marks the start of a request on the calling goroutine (direct
// adapter; with the rpc adapter every request has its own goroutine).
func (m *LockMon) NoteRPC() {
	g := goid()
	m.mu.Lock()
	if m.on {
		delete(m.retry, g)
	}
	m.mu.Unlock()
}

// HoldShrinkers makes every goroutine that reaches a shrink iteration wait
// (at most 3 s) until ReleaseShrinkers: background frees pile up.
func (m *LockMon) HoldShrinkers() {
	m.mu.Lock()
	m.shrinkHold = make(chan struct{})
	m.shrinkParked = 0
	m.mu.Unlock()
}

// ReleaseShrinkers returns how many shrink iterations were held.
func (m *LockMon) ReleaseShrinkers() int {
	m.mu.Lock()
	h := m.shrinkHold
	m.shrinkHold = nil
	n := m.shrinkParked
	m.mu.Unlock()
	if h != nil {
		close(h)
	}
	return n
}

// ArmGate parks the calling goroutine at its n-th transaction abort until
// OpenGate is called (directed exploration of the abort-and-relock windows).
// It returns a channel that is closed when the goroutine is parked.
func (m *LockMon) ArmGate(n int) chan struct{} {
	g := goid()
	m.mu.Lock()
	defer m.mu.Unlock()
	m.gateGid, m.gateN, m.gateCnt, m.gatePending = g, n, 0, false
	m.gateHit = make(chan struct{})
	m.gateGo = make(chan struct{})
	return m.gateHit
}

// ArmHookGate parks the calling goroutine at its n-th hook event of kind ev
// (e.g. the release of its first lock, its pre-commit point).
func (m *LockMon) ArmHookGate(ev, n int) chan struct{} {
	g := goid()
	m.mu.Lock()
	defer m.mu.Unlock()
	m.hgGid, m.hgEv, m.hgN, m.hgCnt = g, ev, n, 0
	m.hgHit = make(chan struct{})
	m.hgGo = make(chan struct{})
	return m.hgHit
}

func (m *LockMon) OpenHookGate() {
	m.mu.Lock()
	g := m.hgGo
	m.hgGo = nil
	m.mu.Unlock()
	if g != nil {
		close(g)
	}
}

func (m *LockMon) OpenGate() {
	m.mu.Lock()
	g := m.gateGo
	m.gateGo = nil
	m.mu.Unlock()
	if g != nil {
		close(g)
	}
}
