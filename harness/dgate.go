package main

// Directed interleavings at disk-access points (C03; feeds C09/C10): one
// request (A) is parked inside its n-th disk read - with whatever inode locks
// and cache slots it holds at that moment - while a director runs a script of
// other requests: requests that need A's locks are started and left waiting,
// a sweep over more inodes than the inode cache holds runs to completion (so
// that everything A and the waiters refer to is evicted), then A is released.
// Afterwards every file is looked at again.  The history is checked like any
// other concurrent history: linearizability against the reference, fsck,
// cache/disk coherence.

import (
	"fmt"
	"sync"
	"sync/atomic"
	"time"

	"github.com/anishathalye/porcupine"
)

type DGateRes struct {
	Viol   []Violation
	Runs   int
	Parked int
	Waited int // runs in which a request was left waiting for a lock of the parked request
	Keys   map[string]bool
	Sample []string
}

type dstep struct {
	op    func(w map[string][]byte) *Op
	async bool // start it and do not wait for it before the gate is opened
	sweep bool // GETATTR of every file of the big directory
}

func runDGate(seed uint64, cas int, tier string) *DGateRes {
	res := &DGateRes{Keys: map[string]bool{}}
	type aop struct {
		name string
		f    func(w map[string][]byte) *Op
	}
	aops := []aop{
		{"GETATTR victim", func(w map[string][]byte) *Op { return &Op{K: OpGetattr, H: w["victim"]} }},
		{"RENAME d1/a -> d1/<name too long> (fails after editing the directory)", func(w map[string][]byte) *Op {
			return &Op{K: OpRename, H: w["d1"], Name: "a", H2: w["d1"], Name2: longName(200, 'x')}
		}},
		{"LOOKUP d1/a", func(w map[string][]byte) *Op { return &Op{K: OpLookup, H: w["d1"], Name: "a"} }},
		{"WRITE victim", func(w map[string][]byte) *Op {
			return &Op{K: OpWrite, H: w["victim"], Off: 100, Count: 50, DataLen: 50, Uid: 4711, Stable: 2}
		}},
		{"REMOVE d1/a", func(w map[string][]byte) *Op { return &Op{K: OpRemove, H: w["d1"], Name: "a"} }},
		{"RENAME d1/a -> d2/b (existing)", func(w map[string][]byte) *Op { return &Op{K: OpRename, H: w["d1"], Name: "a", H2: w["d2"], Name2: "b"} }},
		{"SETATTR victim size 10", func(w map[string][]byte) *Op { return &Op{K: OpSetattr, H: w["victim"], SetSize: true, Size: 10} }},
		{"READDIRPLUS d1", func(w map[string][]byte) *Op { return &Op{K: OpReaddirplus, H: w["d1"], Count: 1 << 20, Dircount: 1 << 20} }},
	}
	sweep := dstep{sweep: true}
	scripts := [][]dstep{
		{sweep},
		{{async: true, op: func(w map[string][]byte) *Op { return &Op{K: OpCreate, H: w["d1"], Name: "a"} }}, sweep},
		{{async: true, op: func(w map[string][]byte) *Op { return &Op{K: OpGetattr, H: w["victim"]} }},
			{async: true, op: func(w map[string][]byte) *Op { return &Op{K: OpLookup, H: w["d1"], Name: "a"} }}, sweep},
		{{async: true, op: func(w map[string][]byte) *Op {
			return &Op{K: OpWrite, H: w["victim"], Off: 0, Count: 20, DataLen: 20, Uid: 4712, Stable: 0}
		}}, {async: true, op: func(w map[string][]byte) *Op { return &Op{K: OpRemove, H: w["d1"], Name: "a"} }}, sweep},
		{{async: true, op: func(w map[string][]byte) *Op { return &Op{K: OpRename, H: w["d1"], Name: "c2", H2: w["d1"], Name2: "a"} }}},
	}
	idx := 0
	for ai := range aops {
		for si := range scripts {
			maxn := 3
			if tier == "thorough" {
				maxn = 8 // deeper into the request (most requests issue fewer reads: those runs are not counted as parked)
			}
			for n := 1; n <= maxn; n++ {
				idx++
				if idx%6 != cas%6 {
					continue
				}
				childLog("dgate A=%s script=%d read=%d", aops[ai].name, si, n)
				oneDGate(seed, aops[ai].name, aops[ai].f, scripts[si], si, n, res)
				if len(res.Viol) > 0 {
					return res
				}
			}
		}
	}
	return res
}

func oneDGate(seed uint64, aname string, aop func(map[string][]byte) *Op, script []dstep, si, n int, res *DGateRes) {
	viol := func(class, f string, a ...interface{}) {
		if len(res.Viol) < 6 {
			res.Viol = append(res.Viol, Violation{Class: class, Msg: fmt.Sprintf("disk gate [A = %s, script %d, parked in its disk read #%d]: ", aname, si, n) + fmt.Sprintf(f, a...)})
		}
	}
	rng := NewRng(mix(seed, uint64(si*10+n)))
	d := NewCDisk(12000)
	mon.Reset(0, true)
	deadlockHandler = func(msg string) {
		viol("deadlock", "%s", msg)
		emitAndExit(dgateJobRes(res))
	}
	srv := StartSrv(d, SrvOpts{Unstable: true})
	lim, err := limitsOf(srv.API, srv.Root)
	if err != nil {
		viol("lin", "%v", err)
		return
	}
	sres := &SeqRes{Stats: Counter{}, States: map[string]bool{}, DeadProbes: Counter{}}
	s := &Sess{p: Profile{Name: "dgate"}, rng: rng, srv: srv, res: sres, inumSeen: map[uint64]int{}}
	s.m = NewModel(srv.Root, lim)
	s.names = namePool
	w := map[string][]byte{"root": srv.Root}
	mk := func(k OpKind, dir []byte, name, as string) []byte {
		r := s.exec(&Op{K: k, H: dir, Name: name, Target: "t"})
		if r.Stat == stOK {
			w[as] = r.FH
			return r.FH
		}
		return nil
	}
	mk(OpCreate, srv.Root, "a", "a")
	mk(OpCreate, srv.Root, "f2", "b")
	mk(OpCreate, srv.Root, "f3", "c2")
	mk(OpCreate, srv.Root, "victim", "victim")
	mk(OpMkdir, srv.Root, "d1", "d1")
	mk(OpMkdir, srv.Root, "d2", "d2")
	s.exec(&Op{K: OpRename, H: srv.Root, Name: "a", H2: w["d1"], Name2: "a"})
	s.exec(&Op{K: OpRename, H: srv.Root, Name: "f2", H2: w["d2"], Name2: "b"})
	s.exec(&Op{K: OpRename, H: srv.Root, Name: "f3", H2: w["d1"], Name2: "c2"})
	s.nextUid++
	s.exec(&Op{K: OpWrite, H: w["victim"], Count: 3000, DataLen: 3000, Uid: s.nextUid, Stable: 2})
	many := mk(OpMkdir, srv.Root, "many", "many")
	var files [][]byte
	for i := 0; many != nil && i < 112; i++ {
		if fh := mk(OpCreate, many, fmt.Sprintf("m%03d", i), "m"); fh != nil {
			files = append(files, fh)
		}
	}
	s.restart() // cold caches: the requests below have to read from the disk
	srv = s.srv
	if len(sres.Viol) > 0 || w["d1"] == nil || w["d2"] == nil || w["victim"] == nil || len(files) < 105 {
		viol("lin", "setup failed: %v", sres.Viol)
		return
	}
	init := s.m.Clone()
	res.Runs++
	var hist []*histOp
	var hmu sync.Mutex
	run := func(client int, op *Op) *histOp {
		op.Materialize()
		ho := &histOp{Client: client, Op: op, Kind: "op"}
		ho.Call = tick()
		ho.Res = doOp(srv.API, op)
		ho.Ret = tick()
		hmu.Lock()
		hist = append(hist, ho)
		hmu.Unlock()
		return ho
	}
	A := aop(w)
	done := make(chan struct{})
	var hit chan struct{}
	armed := make(chan struct{})
	go func() {
		defer close(done)
		mon.SetClient(1)
		hit = d.ArmReadGate(n)
		close(armed)
		run(0, A)
	}()
	<-armed
	parked := false
	select {
	case <-hit:
		parked = true
		res.Parked++
	case <-done:
	case <-time.After(30 * time.Second):
		viol("hang", "request A neither reached its disk read nor returned within 30 s\n%s", allStacks())
		emitAndExit(dgateJobRes(res))
	}
	var wg sync.WaitGroup
	client := 1
	waited := false
	for _, st := range script {
		switch {
		case st.sweep:
			// never conflicts with A: runs to completion while A is parked
			for _, fh := range files {
				run(client, &Op{K: OpGetattr, H: fh})
			}
			client++
		case st.async:
			wg.Add(1)
			c := client
			client++
			op := st.op(w)
			go func() {
				defer wg.Done()
				mon.SetClient(c + 1)
				run(c, op)
			}()
			if parked {
				waited = true
			}
			// let it get as far as it can (it either finishes or waits for a lock)
			p0 := atomic.LoadUint64(&progressCtr)
			for k := 0; k < 50; k++ {
				time.Sleep(2 * time.Millisecond)
				if p1 := atomic.LoadUint64(&progressCtr); p1 == p0 && k > 5 {
					break
				} else {
					p0 = p1
				}
			}
		}
	}
	d.OpenReadGate()
	select {
	case <-done:
	case <-time.After(40 * time.Second):
		viol("hang", "request A does not return after the gate was opened\nlock monitor: %s\n%s", mustJSON(mon.Stats()), allStacks())
		emitAndExit(dgateJobRes(res))
	}
	wdone := make(chan struct{})
	go func() { wg.Wait(); close(wdone) }()
	select {
	case <-wdone:
	case <-time.After(40 * time.Second):
		viol("hang", "a request that waited for the parked request does not return after the gate was opened\nlock monitor: %s\n%s", mustJSON(mon.Stats()), allStacks())
		emitAndExit(dgateJobRes(res))
	}
	if waited {
		res.Waited++
	}
	// look at everything again
	post := client
	// most recently used first: these are still cached (no eviction in between)
	for i := len(files) - 1; i >= 0; i-- {
		run(post, &Op{K: OpGetattr, H: files[i]})
	}
	for _, k := range []string{"victim", "a", "b", "c2"} {
		run(post, &Op{K: OpGetattr, H: w[k]})
	}
	run(post, &Op{K: OpRead, H: w["victim"], Off: 0, Count: 8192})
	run(post, &Op{K: OpLookup, H: w["d1"], Name: "a"})
	run(post, &Op{K: OpCreate, H: w["d1"], Name: "a"})
	for _, fh := range files {
		run(post, &Op{K: OpGetattr, H: fh})
	}
	ls := mon.Stats()
	srv.WaitIdle()
	fr := srv.Fsck(FsckOpts{CheckCaches: true})
	if len(fr.Errs) > 0 {
		viol("fsck", "%s\nhistory:\n%s", joinLines(fr.Errs[:minInt(4, len(fr.Errs))]), renderHistory(hist))
	}
	if len(fr.Leaks) > 0 {
		viol("leak", "%s\nhistory:\n%s", joinLines(fr.Leaks[:minInt(4, len(fr.Leaks))]), renderHistory(hist))
	}
	if len(fr.CacheErrs) > 0 {
		viol("cache", "%s\nhistory:\n%s", joinLines(fr.CacheErrs[:minInt(4, len(fr.CacheErrs))]), renderHistory(hist))
	}
	got, werr := walkTree(srv.API, srv.Root, nil)
	for _, m := range werr.Msgs {
		viol("lin", "final walk: %s", m)
	}
	t := tick()
	hist = append(hist, &histOp{Client: post + 1, Kind: "final", Dump: dumpString(got), Call: t, Ret: tick()})
	mon.Off()
	srv.Shutdown()
	if ls.Cycle != "" {
		viol("deadlock", "lock-order cycle (potential deadlock): %s", ls.Cycle)
	}
	ops := make([]porcupine.Operation, 0, len(hist))
	for _, ho := range hist {
		ops = append(ops, porcupine.Operation{ClientId: ho.Client, Input: ho, Call: ho.Call, Output: ho, Return: ho.Ret})
	}
	switch r, _ := porcupine.CheckOperationsVerbose(concModel(init), ops, 60*time.Second); r {
	case porcupine.Illegal:
		viol("lin", "history has no linearization (A was parked: %v):\n%s", parked, renderHistoryShort(hist))
	}
	if parked {
		res.Keys[fmt.Sprintf("%s/script%d/read%d", aname, si, n)] = true
	}
	if len(res.Sample) == 0 && parked && waited {
		res.Sample = []string{renderHistoryShort(hist)}
	}
}

// renderHistoryShort leaves out the successful GETATTRs of the sweeps.
func renderHistoryShort(hist []*histOp) string {
	var keep []*histOp
	skipped := 0
	for _, h := range hist {
		if h.Kind == "op" && h.Op.K == OpGetattr && h.Res.Stat == stOK && skipped < 1000 && len(keep) > 0 && h.Client != 0 {
			skipped++
			if skipped%40 != 1 {
				continue
			}
		}
		keep = append(keep, h)
	}
	return renderHistory(keep) + fmt.Sprintf("\n(%d successful GETATTRs of the sweeps not shown)", skipped)
}

func dgateJobRes(r *DGateRes) *JobRes {
	out := &JobRes{Viol: r.Viol, Evals: r.Runs, Counters: Counter{"diskgate_runs": r.Runs, "diskgate_runs_where_A_was_parked_in_a_disk_read": r.Parked, "diskgate_runs_with_a_request_left_waiting_for_the_parked_one": r.Waited}, Distinct: sortedKeys(r.Keys)}
	for _, x := range r.Sample {
		out.Samples = append(out.Samples, x)
	}
	return out
}
