package main

// vh: verification harness for go-nfsd.
//
//   vh check <ID> --tier quick|thorough [--replay file]   orchestrator
//   vh child <job.json>                                   one batch in a child process
//
// The orchestrator fans jobs out to child processes (a panic anywhere in the
// server kills its process), aggregates their results, writes
// evidence/<ID>.json, prints VIOLATION / KNOWN-FINDING / INCONCLUSIVE lines
// and sets the exit code (0 held, 1 violation, 2 broken check).

import (
	"bufio"
	"encoding/json"
	"fmt"
	"os"
	"os/exec"
	"path/filepath"
	"runtime"
	"runtime/debug"
	"sort"
	"strings"
	"sync"
	"syscall"
	"time"
)

type Job struct {
	Prop    string
	Engine  string
	Profile string
	Tier    string
	Seed    uint64
	Case    int
	N       int               `json:",omitempty"` // engine-specific size parameter
	Args    map[string]string `json:",omitempty"`
	Race    bool              `json:",omitempty"` // run in the race-instrumented binary
	Timeout int               `json:",omitempty"` // seconds
}

type JobRes struct {
	Job          Job
	Viol         []Violation
	Known        []string // known findings observed (sig names)
	Evals        int
	Distinct     []string // keys of distinct non-trivial cases
	Counters     Counter
	Samples      []interface{}
	Inconclusive []string
	Notes        []string
	WallS        float64
	Died         string // set by the parent when the child died without a result
	TimedOut     bool
}

var verifDir = "/verif"

func main() {
	if len(os.Args) < 2 {
		fmt.Fprintln(os.Stderr, "usage: vh check <ID> --tier quick|thorough [--replay file] | vh child <job.json>")
		os.Exit(2)
	}
	if d := os.Getenv("VERIF_DIR"); d != "" {
		verifDir = d
	}
	switch os.Args[1] {
	case "child":
		runChild(os.Args[2])
	case "check":
		os.Exit(runCheck(os.Args[2:]))
	default:
		fmt.Fprintln(os.Stderr, "unknown command", os.Args[1])
		os.Exit(2)
	}
}

// ---------------------------------------------------------------------------
// child side

func runChild(jobFile string) {
	debug.SetTraceback("all")
	b, err := os.ReadFile(jobFile)
	if err != nil {
		fmt.Fprintln(os.Stderr, err)
		os.Exit(2)
	}
	var job Job
	if err := json.Unmarshal(b, &job); err != nil {
		fmt.Fprintln(os.Stderr, err)
		os.Exit(2)
	}
	loadKnown()
	startWatchdog()
	t0 := time.Now()
	res := dispatch(job)
	res.Job = job
	res.WallS = time.Since(t0).Seconds()
	out, _ := json.Marshal(res)
	fmt.Printf("\nRESULT %s\n", out)
}

// childLog announces a step before it is executed, so that the parent can
// attribute a death of this process.
func childLog(f string, a ...interface{}) {
	fmt.Printf("STEP "+f+"\n", a...)
}

// ---------------------------------------------------------------------------
// parent side

type PropSpec struct {
	ID    string
	Level string // evidence level
	Rule  string
	// classes of violation that belong to this property; others seen during
	// its runs are printed as notes (their own property's check reports them)
	Classes []string
	Plan    func(tier string, seed uint64) []Job
	Assume  []string
	Exhaustive bool // the run enumerates its stated finite space completely
}

func runCheck(args []string) int {
	if len(args) < 1 {
		fmt.Fprintln(os.Stderr, "usage: vh check <ID> --tier quick|thorough [--replay file]")
		return 2
	}
	id := args[0]
	tier := os.Getenv("VERIF_TIER")
	replay := ""
	for i := 1; i < len(args); i++ {
		switch args[i] {
		case "--tier":
			i++
			tier = args[i]
		case "--replay":
			i++
			replay = args[i]
		}
	}
	if tier == "" {
		tier = "quick"
	}
	seed := uint64(envInt("VERIF_SEED", 1))
	spec, ok := propSpecs()[id]
	if !ok {
		fmt.Fprintln(os.Stderr, "unknown property", id)
		return 2
	}
	loadKnown()
	t0 := time.Now()
	var jobs []Job
	if replay != "" {
		b, err := os.ReadFile(replay)
		if err != nil {
			fmt.Fprintln(os.Stderr, err)
			return 2
		}
		var rp struct{ Job Job }
		if err := json.Unmarshal(b, &rp); err != nil {
			fmt.Fprintln(os.Stderr, err)
			return 2
		}
		jobs = []Job{rp.Job}
	} else {
		jobs = spec.Plan(tier, seed)
	}
	for i := range jobs {
		jobs[i].Prop = id
		jobs[i].Tier = tier
		if jobs[i].Seed == 0 {
			jobs[i].Seed = seed
		}
	}
	results := runJobs(id, jobs)
	return report(spec, tier, seed, results, time.Since(t0).Seconds(), replay != "")
}

func runJobs(id string, jobs []Job) []*JobRes {
	logDir := filepath.Join(verifDir, ".build", "logs", id)
	os.RemoveAll(logDir)
	os.MkdirAll(logDir, 0o755)
	par := int(envInt("VERIF_PAR", int64(runtime.NumCPU())))
	if par < 1 {
		par = 1
	}
	results := make([]*JobRes, len(jobs))
	sem := make(chan struct{}, par)
	var wg sync.WaitGroup
	self, _ := os.Executable()
	for i := range jobs {
		wg.Add(1)
		sem <- struct{}{}
		go func(i int) {
			defer wg.Done()
			defer func() { <-sem }()
			results[i] = runOneJob(self, logDir, i, jobs[i])
		}(i)
	}
	wg.Wait()
	return results
}

func runOneJob(self, logDir string, idx int, job Job) *JobRes {
	jf := filepath.Join(logDir, fmt.Sprintf("job-%04d.json", idx))
	lf := filepath.Join(logDir, fmt.Sprintf("job-%04d.log", idx))
	jb, _ := json.Marshal(job)
	os.WriteFile(jf, jb, 0o644)
	bin := self
	if job.Race {
		bin = filepath.Join(filepath.Dir(self), "vh-race")
	}
	to := job.Timeout
	if to == 0 {
		to = 900
		if job.Tier == "thorough" {
			to = 3600
		}
	}
	out, _ := os.Create(lf)
	// memory cap 6 GiB per child (definite "out of memory" instead of swapping)
	cmd := exec.Command("/bin/sh", "-c", fmt.Sprintf("ulimit -v 8388608; exec timeout -s QUIT %d %q child %q", to, bin, jf))
	cmd.Stdout = out
	cmd.Stderr = out
	cmd.Env = append(os.Environ(), "GOTRACEBACK=all")
	if job.Race {
		cmd.Env = append(cmd.Env, "GORACE=halt_on_error=0 log_path="+filepath.Join(logDir, fmt.Sprintf("race-%04d", idx)))
	}
	t0 := time.Now()
	err := cmd.Run()
	out.Close()
	res := parseResult(lf)
	if res == nil {
		res = &JobRes{Job: job}
		code := -1
		if ee, ok := err.(*exec.ExitError); ok {
			if ws, ok := ee.Sys().(syscall.WaitStatus); ok {
				code = ws.ExitStatus()
				if ws.Signaled() {
					code = 128 + int(ws.Signal())
				}
			}
		}
		tail := logTail(lf, 60)
		if code == 124 || code == 128+int(syscall.SIGQUIT) || strings.Contains(tail, "SIGQUIT: quit") {
			res.TimedOut = true
			res.Inconclusive = append(res.Inconclusive, fmt.Sprintf("child exceeded its %d s watchdog (see %s)", to, lf))
		} else {
			first := tail
			if i := strings.Index(first, "\n"); i >= 0 {
				first = first[:i]
			}
			if !(strings.HasPrefix(first, "panic:") || strings.HasPrefix(first, "fatal error:") || strings.HasPrefix(first, "DEADLOCK:")) {
				first = "no panic line in the log"
			}
			res.Died = fmt.Sprintf("child process died (exit %d, err %v): %s; last step: %s", code, err, first, lastStep(lf))
		}
		res.Notes = append(res.Notes, tail)
	}
	res.Job = job
	if res.WallS == 0 {
		res.WallS = time.Since(t0).Seconds()
	}
	if job.Race {
		res.Viol = append(res.Viol, raceViolations(logDir, idx)...)
	}
	return res
}

func parseResult(lf string) *JobRes {
	f, err := os.Open(lf)
	if err != nil {
		return nil
	}
	defer f.Close()
	sc := bufio.NewScanner(f)
	sc.Buffer(make([]byte, 1<<20), 256<<20)
	var res *JobRes
	for sc.Scan() {
		l := sc.Text()
		if strings.HasPrefix(l, "RESULT ") {
			var r JobRes
			if json.Unmarshal([]byte(l[7:]), &r) == nil {
				res = &r
			}
		}
	}
	return res
}

func lastStep(lf string) string {
	b, _ := os.ReadFile(lf)
	last := "(none)"
	for _, l := range strings.Split(string(b), "\n") {
		if strings.HasPrefix(l, "STEP ") {
			last = l[5:]
		}
	}
	return last
}

func logTail(lf string, n int) string {
	b, _ := os.ReadFile(lf)
	lines := strings.Split(string(b), "\n")
	// prefer the panic/fatal line and what follows
	for i, l := range lines {
		if strings.HasPrefix(l, "panic:") || strings.HasPrefix(l, "fatal error:") || strings.HasPrefix(l, "DEADLOCK:") {
			end := i + n
			if end > len(lines) {
				end = len(lines)
			}
			return strings.Join(lines[i:end], "\n")
		}
	}
	if len(lines) > n {
		lines = lines[len(lines)-n:]
	}
	return strings.Join(lines, "\n")
}

// raceViolations turns the race detector's report files into violations,
// de-duplicated by the pair of first repository/journal frames of the two
// accesses (line numbers stripped).  Reports whose stacks contain only
// harness frames mean a bug in the harness (class "harness").
func raceViolations(logDir string, idx int) []Violation {
	ms, _ := filepath.Glob(filepath.Join(logDir, fmt.Sprintf("race-%04d.*", idx)))
	seen := map[string]bool{}
	var out []Violation
	for _, m := range ms {
		b, _ := os.ReadFile(m)
		for _, blk := range strings.Split(string(b), "==================") {
			if !strings.Contains(blk, "WARNING: DATA RACE") {
				continue
			}
			var sig []string
			stacks := strings.Split(blk, "\n\n")
			for _, st := range stacks[:minInt(2, len(stacks))] {
				first := ""
				for _, l := range strings.Split(st, "\n") {
					l = strings.TrimSpace(l)
					if (strings.Contains(l, "go-nfsd/") || strings.Contains(l, "go-journal")) && strings.HasSuffix(l, ")") && !strings.Contains(l, ".go:") {
						first = l
						break
					}
				}
				sig = append(sig, first)
			}
			key := strings.Join(sig, " <-> ")
			if seen[key] {
				continue
			}
			seen[key] = true
			class := "race"
			if strings.Trim(key, " <->") == "" {
				class = "harness"
			}
			if len(blk) > 6000 {
				blk = blk[:6000]
			}
			out = append(out, Violation{Class: class, Msg: "data race reported by the Go race detector (" + key + "), report file " + m + ":\n" + blk})
		}
	}
	return out
}

func inClasses(cs []string, c string) bool {
	for _, x := range cs {
		if x == c || x == "*" {
			return true
		}
	}
	return false
}

func report(spec PropSpec, tier string, seed uint64, results []*JobRes, wall float64, isReplay bool) int {
	id := spec.ID
	evals := 0
	distinct := map[string]bool{}
	counters := Counter{}
	var samples []interface{}
	var inconc []string
	nviol := 0
	knownSeen := map[string]bool{}
	replayDir := filepath.Join(verifDir, "replays", id)
	other := Counter{}
	for _, r := range results {
		if r == nil {
			continue
		}
		evals += r.Evals
		for _, k := range r.Distinct {
			distinct[k] = true
		}
		counters.Merge(r.Counters)
		if len(samples) < 3 && len(r.Samples) > 0 {
			samples = append(samples, r.Samples[0])
		}
		for _, s := range r.Inconclusive {
			inconc = append(inconc, s)
		}
		for _, k := range r.Known {
			knownSeen[k] = true
		}
		var mine []Violation
		for _, v := range r.Viol {
			if inClasses(spec.Classes, v.Class) {
				mine = append(mine, v)
			} else {
				other.Add(v.Class)
				fmt.Printf("NOTE: during the %s run an oracle of another property fired (class %s): %s\n", id, v.Class, firstLine(v.Msg))
			}
		}
		if r.Died != "" {
			mine = append(mine, Violation{Class: "crash", Msg: r.Died + "\n" + strings.Join(r.Notes, "\n")})
		}
		if len(mine) > 0 {
			nviol += len(mine)
			os.MkdirAll(replayDir, 0o755)
			rp := filepath.Join(replayDir, fmt.Sprintf("%d-%s-%s-%d.json", r.Job.Seed, r.Job.Engine, r.Job.Profile, r.Job.Case))
			doc := map[string]interface{}{"Job": r.Job, "Violations": mine, "Notes": r.Notes, "Samples": r.Samples}
			b, _ := json.MarshalIndent(doc, "", " ")
			os.WriteFile(rp, b, 0o644)
			for _, v := range mine {
				fmt.Printf("DETAIL property=%s class=%s: %s\n", id, v.Class, v.Msg)
			}
			fmt.Printf("VIOLATION property=%s replay=%s\n", id, rp)
		}
	}
	for _, k := range sortedKeys(knownSeen) {
		fmt.Printf("KNOWN-FINDING: property=%s %s\n", id, knownText(id, k))
	}
	for _, s := range inconc {
		fmt.Printf("INCONCLUSIVE: property=%s %s\n", id, s)
	}
	assume := spec.Assume
	if assume == nil {
		assume = []string{"reference model conventions of DESIGN.md §2.2", "open known findings are avoided by the generators (KNOWN_FINDINGS.txt)"}
	}
	ev := map[string]interface{}{
		"property_id": id,
		"tier":        tier,
		"seed":        seed,
		"level":       spec.Level,
		"wall_s":      wall,
		"violations":  nviol,
		"assumptions": assume,
		"coverage": map[string]interface{}{
			"evaluations":         evals,
			"distinct_nontrivial": len(distinct),
			"rule":                spec.Rule,
			"samples":             samples,
			"counters":            counters,
			"jobs":                len(results),
			"inconclusive":        len(inconc),
			"other_property_oracles_fired": other,
			"known_findings_observed":      sortedKeys(knownSeen),
		},
	}
	if spec.Exhaustive {
		ev["coverage"].(map[string]interface{})["exhaustive"] = true
	}
	if !isReplay {
		os.MkdirAll(filepath.Join(verifDir, "evidence"), 0o755)
		b, _ := json.MarshalIndent(ev, "", " ")
		os.WriteFile(filepath.Join(verifDir, "evidence", id+".json"), append(b, '\n'), 0o644)
	}
	fmt.Printf("SUMMARY property=%s tier=%s seed=%d jobs=%d evaluations=%d distinct_nontrivial=%d violations=%d inconclusive=%d wall=%.1fs\n",
		id, tier, seed, len(results), evals, len(distinct), nviol, len(inconc), wall)
	if nviol > 0 {
		return 1
	}
	if other["harness"] > 0 {
		fmt.Printf("BROKEN: property=%s the harness itself misbehaved (%d report(s) of class 'harness', see the NOTE lines)\n", id, other["harness"])
		return 2
	}
	if evals == 0 || (len(distinct) < 2 && !isReplay) {
		fmt.Printf("BROKEN: property=%s the monitors observed nothing (evaluations=%d distinct=%d)\n", id, evals, len(distinct))
		return 2
	}
	return 0
}

func firstLine(s string) string {
	if i := strings.IndexByte(s, '\n'); i >= 0 {
		return s[:i]
	}
	return s
}

func sortedKeys(m map[string]bool) []string {
	r := make([]string, 0, len(m))
	for k := range m {
		r = append(r, k)
	}
	sort.Strings(r)
	return r
}
