package main

// Targeted probes for the open known findings (KNOWN_FINDINGS.txt): each runs
// the minimal reproducer.  If the defect is still there and the finding is
// listed, the check prints KNOWN-FINDING; if it is there and NOT listed it is
// a violation like any other; if it is gone nothing is printed.

import (
	"fmt"
	"strings"
)

func probeC04() *JobRes {
	out := &JobRes{Counters: Counter{}}
	mon.Off()
	report := func(sig, msg string) {
		if knownOpen("C04", sig) {
			out.Known = append(out.Known, sig)
		} else {
			out.Viol = append(out.Viol, Violation{Class: "fsck", Msg: msg})
		}
	}
	// 1. a directory renamed into a different parent
	{
		srv := StartSrv(NewCDisk(8000), SrvOpts{Unstable: true})
		api, root := srv.API, srv.Root
		a := doOp(api, &Op{K: OpMkdir, H: root, Name: "a"})
		b := doOp(api, &Op{K: OpMkdir, H: root, Name: "b"})
		doOp(api, &Op{K: OpMkdir, H: a.FH, Name: "x"})
		r := doOp(api, &Op{K: OpRename, H: a.FH, Name: "x", H2: b.FH, Name2: "x"})
		out.Evals++
		fr := srv.Fsck(FsckOpts{})
		bad := ""
		for _, m := range fr.Errs {
			if strings.Contains(m, "slot 1") {
				bad = m
			}
		}
		lk := doOp(api, &Op{K: OpLookup, H: b.FH, Name: "x"})
		up := doOp(api, &Op{K: OpLookup, H: lk.FH, Name: ".."})
		if r.Stat == stOK && (bad != "" || string(up.FH) != string(b.FH)) {
			report("rename-dir-across-directories", fmt.Sprintf("mkdir a; mkdir b; mkdir a/x; RENAME a/x -> b/x succeeds but %s; LOOKUP(b/x, '..') gives handle %x, b is %x", bad, up.FH, b.FH))
		}
		out.Distinct = append(out.Distinct, "probe:rename-dir-across-directories")
		srv.Shutdown()
	}
	// 2. a directory renamed into its own subtree
	{
		srv := StartSrv(NewCDisk(8000), SrvOpts{Unstable: true})
		api, root := srv.API, srv.Root
		p := doOp(api, &Op{K: OpMkdir, H: root, Name: "p"})
		q := doOp(api, &Op{K: OpMkdir, H: p.FH, Name: "q"})
		r := doOp(api, &Op{K: OpRename, H: root, Name: "p", H2: q.FH, Name2: "r"})
		out.Evals++
		if r.Stat == stOK {
			fr := srv.Fsck(FsckOpts{})
			report("rename-dir-into-own-subtree", fmt.Sprintf("mkdir p; mkdir p/q; RENAME p -> p/q/r is accepted (status 0); fsck: %v", fr.Errs))
		}
		out.Distinct = append(out.Distinct, "probe:rename-dir-into-own-subtree")
		srv.Shutdown()
	}
	out.Samples = []interface{}{"probes: mkdir a,b,a/x; RENAME a/x -> b/x  |  mkdir p,p/q; RENAME p -> p/q/r"}
	return out
}
