package main

// Targeted probes for the open known findings (KNOWN_FINDINGS.txt): each runs
// the minimal reproducer.  If the defect is still there and the finding is
// listed, the check prints KNOWN-FINDING; if it is there and NOT listed it is
// a violation like any other; if it is gone nothing is printed.

import (
	"fmt"
	"strings"
)

func probeC04() *JobRes {
	out := &JobRes{Counters: Counter{}}
	mon.Off()
	report := func(sig, msg string) {
		if knownOpen("C04", sig) {
			out.Known = append(out.Known, sig)
		} else {
			out.Viol = append(out.Viol, Violation{Class: "fsck", Msg: msg})
		}
	}
	// 1. a directory renamed into a different parent
	{
		srv := StartSrv(NewCDisk(8000), SrvOpts{Unstable: true})
		api, root := srv.API, srv.Root
		a := doOp(api, &Op{K: OpMkdir, H: root, Name: "a"})
		b := doOp(api, &Op{K: OpMkdir, H: root, Name: "b"})
		doOp(api, &Op{K: OpMkdir, H: a.FH, Name: "x"})
		r := doOp(api, &Op{K: OpRename, H: a.FH, Name: "x", H2: b.FH, Name2: "x"})
		out.Evals++
		fr := srv.Fsck(FsckOpts{})
		bad := ""
		for _, m := range fr.Errs {
			if strings.Contains(m, "slot 1") {
				bad = m
			}
		}
		lk := doOp(api, &Op{K: OpLookup, H: b.FH, Name: "x"})
		up := doOp(api, &Op{K: OpLookup, H: lk.FH, Name: ".."})
		if r.Stat == stOK && (bad != "" || string(up.FH) != string(b.FH)) {
			report("rename-dir-across-directories", fmt.Sprintf("mkdir a; mkdir b; mkdir a/x; RENAME a/x -> b/x succeeds but %s; LOOKUP(b/x, '..') gives handle %x, b is %x", bad, up.FH, b.FH))
		}
		out.Distinct = append(out.Distinct, "probe:rename-dir-across-directories")
		srv.Shutdown()
	}
	// 2. a directory renamed into its own subtree
	{
		srv := StartSrv(NewCDisk(8000), SrvOpts{Unstable: true})
		api, root := srv.API, srv.Root
		p := doOp(api, &Op{K: OpMkdir, H: root, Name: "p"})
		q := doOp(api, &Op{K: OpMkdir, H: p.FH, Name: "q"})
		r := doOp(api, &Op{K: OpRename, H: root, Name: "p", H2: q.FH, Name2: "r"})
		out.Evals++
		if r.Stat == stOK {
			fr := srv.Fsck(FsckOpts{})
			report("rename-dir-into-own-subtree", fmt.Sprintf("mkdir p; mkdir p/q; RENAME p -> p/q/r is accepted (status 0); fsck: %v", fr.Errs))
		}
		out.Distinct = append(out.Distinct, "probe:rename-dir-into-own-subtree")
		srv.Shutdown()
	}
	out.Samples = []interface{}{"probes: mkdir a,b,a/x; RENAME a/x -> b/x  |  mkdir p,p/q; RENAME p -> p/q/r"}
	return out
}

// probeFormatCrash: a crash inside the very first MakeNfs (mkfs writes the
// root inode and the bitmaps directly, without the journal and without a
// barrier in between).  Every prefix cut of the format trace is recovered; the
// result must be an empty, usable file system.
func probeFormatCrash() *JobRes {
	out := &JobRes{Counters: Counter{}}
	mon.Off()
	const size = 4000
	d := NewCDisk(size)
	base := d.StartRecording()
	srv := StartSrv(d, SrvOpts{Unstable: true})
	srv.Flush()
	trace := d.StopRecording()
	srv.Shutdown()
	it := NewCutIter(size, base, trace)
	bad := ""
	nbad := 0
	n := 0
	for {
		e, ok := it.Step()
		if !ok {
			break
		}
		if e.Kind != EvWrite {
			continue
		}
		n++
		imgs := []map[uint64][]byte{it.PrefixImage()}
		lrng := NewRng(uint64(n) + 77)
		for k := 0; k < 3 && it.WindowSize() > 0; k++ {
			li, _ := it.LossyImage(lrng)
			imgs = append(imgs, li)
		}
		for _, img := range imgs {
			msg := func() (m string) {
				defer func() {
					if r := recover(); r != nil {
						m = fmt.Sprintf("panic: %v", r)
					}
				}()
				s2 := StartSrv(NewCDiskFrom(size, img), SrvOpts{Unstable: true})
				defer s2.Shutdown()
				c := doOp(s2.API, &Op{K: OpCreate, H: s2.Root, Name: "x"})
				if c.Stat != stOK {
					return fmt.Sprintf("CREATE on the recovered file system fails with status %d", c.Stat)
				}
				w := doOp(s2.API, &Op{K: OpWrite, H: c.FH, Count: 5000, DataLen: 5000, Data: make([]byte, 5000), Stable: 2})
				if w.Stat != stOK {
					return fmt.Sprintf("WRITE on the recovered file system fails with status %d", w.Stat)
				}
				fr := s2.Fsck(FsckOpts{CheckCaches: true})
				if len(fr.Errs)+len(fr.Leaks) > 0 {
					return fmt.Sprintf("fsck: %v %v", fr.Errs, fr.Leaks)
				}
				return ""
			}()
			out.Evals++
			if msg != "" {
				nbad++
				if bad == "" {
					bad = fmt.Sprintf("cut after write #%d (block %d) of the initial format: %s", n, e.Addr, msg)
				}
			}
		}
	}
	out.Counters["format_trace_writes"] = n
	out.Counters["format_cuts_that_leave_a_broken_file_system"] = nbad
	out.Distinct = append(out.Distinct, "probe:format-crash", fmt.Sprintf("format-cuts-%d", n))
	if bad != "" {
		if knownOpen("C01", "crash-during-initial-format") {
			out.Known = append(out.Known, "crash-during-initial-format")
		} else {
			out.Viol = append(out.Viol, Violation{Class: "crash", Msg: bad})
		}
	}
	return out
}
