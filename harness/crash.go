package main

// Crash engine (DESIGN §2.1, C01/C07; also feeds C04/C05): a seeded workload
// runs once on a recording disk; the trace is then cut at every point
// (prefix cuts), with un-barriered writes lost/reordered (lossy cuts), and the
// recovery runs themselves are cut again (depth 2).  Every image is recovered
// by the real MakeNfs and compared with the reference states S_lo..S_hi.

import (
	"github.com/mit-pdos/go-journal/common"
	"bytes"
	"fmt"
	"runtime"
	"strings"
	"sync"
)

type CrashCfg struct {
	Name      string
	NOps      int
	DiskBlocks uint64
	Unstable  bool
	Timed     bool
	WriteHeavy bool // C07: several files, stability mix, COMMITs
	BigFiles  bool // files > 511 blocks: multi-transaction frees by the shrinker
	Dense     bool // C07: unstable writes around a big truncation of a dense file and around a cut inside the double-indirect range
	Restarts  bool // clean restarts without flush inside the workload
	Lossy     int  // lossy images per cut
	Depth2Every int // cut the recovery run of every n-th image again (0 = never)
	CutStride int  // evaluate every n-th cut (1 = all)
	Perturb   bool
	Script    bool // fixed scenario around an interrupted big truncation instead of random operations
	Continue  bool // run the continuation workload
	ContinueEvery int // ... on every n-th image (0/1 = all)
	Depth2Stride int // cut the recorded recovery run after every n-th of its writes
}

type CrashRes struct {
	Viol      []Violation
	Images    int
	Distinct  map[string]bool
	NonTrivial int
	Hist      Counter // matched prefix j - lo
	Cuts      int
	TraceLen  int
	Ops       int
	MidShrink int
	Lost      Counter // lost suffix lengths (hi - j)
	Sample    []string
	Depth2    int
	LossyN    int
	VerfInstances int
	Stats     Counter
	UnstableSuffix int // images with a non-empty unstable suffix at the cut
}

type opRec struct {
	Op     *Op
	Stat   uint32
	Stable bool // acknowledged with stable semantics
	Desc   string
}

type crashWork struct {
	cfg    CrashCfg
	base   map[uint64][]byte
	trace  []DiskEv
	ops    []opRec
	snaps  []*Model // S_0 .. S_n
	dumps  []string
	hmaps  []map[string][]byte
	size   uint64
	verfs  [][8]byte
}

func crashW(cfg CrashCfg) map[OpKind]int {
	w := map[OpKind]int{OpGetattr: 1, OpSetattr: 6, OpLookup: 1, OpRead: 3, OpWrite: 14, OpCreate: 8, OpMkdir: 4, OpSymlink: 3,
		OpRemove: 6, OpRmdir: 2, OpRename: 7, OpReaddirplus: 1, OpCommit: 6}
	if cfg.WriteHeavy {
		w[OpWrite] = 30
		w[OpCommit] = 8
		w[OpCreate] = 5
	}
	return w
}

// stableAck: was this successful reply an acknowledgement with stable
// semantics that is known to have gone through the journal with wait=true?
func stableAck(op *Op, r *Res, unstable bool, m *Model) bool {
	if r.Stat != stOK {
		return false
	}
	switch op.K {
	case OpCreate, OpMkdir, OpSymlink, OpRemove, OpRmdir:
		return true
	case OpRename:
		return !(bytes.Equal(op.H, op.H2) && op.Name == op.Name2)
	case OpSetattr:
		return op.SetSize || op.SetAtime != 0 || op.SetMtime != 0
	case OpWrite:
		return r.Count > 0 && (op.Stable != 0 || !unstable)
	case OpCommit:
		return true
	}
	return false
}

// runCrashWorkload executes the workload and records trace + reference
// states.
func runCrashWorkload(cfg CrashCfg, seed uint64, cas int, res *CrashRes) *crashWork {
	rng := NewRng(mix(seed, uint64(cas)*31+uint64(len(cfg.Name))))
	p := Profile{Name: cfg.Name, DiskBlocks: cfg.DiskBlocks, W: crashW(cfg), PDead: 2, PWrongKind: 3, PBadName: 4, Unstable: cfg.Unstable, Timed: cfg.Timed}
	d := NewCDisk(cfg.DiskBlocks)
	srv := StartSrv(d, SrvOpts{Unstable: cfg.Unstable, Timed: cfg.Timed})
	lim, err := limitsOf(srv.API, srv.Root)
	sres := &SeqRes{Stats: Counter{}, States: map[string]bool{}, DeadProbes: Counter{}}
	s := &Sess{p: p, rng: rng, srv: srv, res: sres, inumSeen: map[uint64]int{}}
	if err != nil {
		res.Viol = append(res.Viol, Violation{Class: "crash", Msg: err.Error()})
		return nil
	}
	s.m = NewModel(srv.Root, lim)
	s.names = []string{"a", "b", "c", "f1", "d0", "d1", "lnk", longName(lim.NameMax, 'Q')}
	w := &crashWork{cfg: cfg, size: cfg.DiskBlocks}
	srv.Flush()
	if cfg.Perturb {
		d.SetPerturb(seed*977 + uint64(cas) + 1)
	}
	w.base = d.StartRecording()
	snap := func() {
		c := s.m.Clone()
		w.snaps = append(w.snaps, c)
		es := c.DumpEnts()
		w.dumps = append(w.dumps, dumpString(es))
		hm := map[string][]byte{}
		for _, e := range es {
			if e.FH != nil {
				hm[e.Path] = e.FH
			}
		}
		w.hmaps = append(w.hmaps, hm)
	}
	snap()
	var curVerf *[8]byte
	noteVerf := func(r *Res, op *Op) {
		if r.Stat != stOK || (op.K != OpWrite && op.K != OpCommit) {
			return
		}
		if curVerf == nil {
			v := r.Verf
			curVerf = &v
			for _, old := range w.verfs {
				if old == v {
					res.Viol = append(res.Viol, Violation{Class: "verf", Msg: fmt.Sprintf("write verifier %x is the same in two server instances", v)})
				}
			}
			w.verfs = append(w.verfs, v)
		} else if *curVerf != r.Verf {
			res.Viol = append(res.Viol, Violation{Class: "verf", Msg: fmt.Sprintf("write verifier changed within one server instance: %x then %x", *curVerf, r.Verf)})
		}
		if op.K == OpWrite {
			want := op.Stable
			if !cfg.Unstable {
				want = 2
			}
			if r.Committed < want {
				res.Viol = append(res.Viol, Violation{Class: "verf", Msg: fmt.Sprintf("%s: committed level %d is weaker than what was done/requested (%d)", op, r.Committed, want)})
			}
		}
	}
	doOne := func(op *Op) *Res {
		i := len(w.ops)
		d.Mark(EvCall, i)
		r := s.exec(op)
		d.Mark(EvRet, i)
		noteVerf(r, op)
		w.ops = append(w.ops, opRec{Op: op, Stat: r.Stat, Stable: stableAck(op, r, cfg.Unstable, s.m), Desc: fmt.Sprintf("%s => %d", op, r.Stat)})
		snap()
		return r
	}
	big := 0
	if cfg.Script {
		// a big file is truncated (to nothing in odd cases) and the crash cuts
		// fall into the background free; nothing else touches the file, so the
		// continuation on the recovered images finds it half-truncated
		root := s.srv.Root
		if r := doOne(&Op{K: OpCreate, H: root, Name: "a"}); r.Stat == stOK {
			s.nextUid++
			doOne(&Op{K: OpWrite, H: r.FH, Count: 9000, DataLen: 9000, Uid: s.nextUid, Stable: 2})
		}
		if r := doOne(&Op{K: OpCreate, H: root, Name: "big"}); r.Stat == stOK {
			for k := 0; k < 10; k++ {
				s.nextUid++
				doOne(&Op{K: OpWrite, H: r.FH, Off: uint64(k) * 64 * BlockSize, Count: 64 * BlockSize, DataLen: 64 * BlockSize, Uid: s.nextUid, Stable: []int{0, 2}[k%2]})
			}
			sz := []uint64{0, 0, BlockSize, 100}[cas/8%4]
			doOne(&Op{K: OpSetattr, H: r.FH, SetSize: true, Size: sz})
		}
		if r := doOne(&Op{K: OpCreate, H: root, Name: "b"}); r.Stat == stOK {
			s.nextUid++
			doOne(&Op{K: OpWrite, H: r.FH, Count: 20000, DataLen: 20000, Uid: s.nextUid, Stable: 0})
			doOne(&Op{K: OpCommit, H: r.FH})
		}
		cfg.NOps = 0
	}
	for i := 0; i < cfg.NOps && len(sres.Viol) == 0; i++ {
		var op *Op
		switch {
		case cfg.BigFiles && i == 2:
			// a file of > 511 blocks: its removal/truncation is freed by the
			// background shrinker in several transactions
			r := doOne(&Op{K: OpCreate, H: s.srv.Root, Name: "big"})
			if r.Stat == stOK {
				// 576, 1152 or 1664 blocks: with more than ~1030 blocks a background
				// transaction (not the request's own) releases the double-indirect
				// root and ends inside the indirect range
				chunks := []int{9, 18, 9, 26}[(cas/2)%4]
				for k := 0; k < chunks; k++ {
					s.nextUid++
					n := uint32(64 * BlockSize)
					doOne(&Op{K: OpWrite, H: r.FH, Off: uint64(k) * 64 * BlockSize, Count: n, DataLen: n, Uid: s.nextUid, Stable: []int{0, 2}[k%2]})
				}
				big = 1
			}
			continue
		case cfg.BigFiles && big == 1 && i == cfg.NOps*2/3:
			big = 2
			o := s.m.lookupIn(s.m.Objs[s.m.Root], "big")
			variant := []int{0, 0, 2, 3, 1, 2, 3, 1}[(cas+cas/4)%8]
			switch {
			case variant == 1 || o == nil || o.FH == nil:
				op = &Op{K: OpRemove, H: s.srv.Root, Name: "big"}
			case variant == 2:
				// truncate to nothing and remove right away (the free is still in progress)
				doOne(&Op{K: OpSetattr, H: o.FH, SetSize: true, Size: 0})
				op = &Op{K: OpRemove, H: s.srv.Root, Name: "big"}
			case variant == 3:
				// truncate to a block boundary, append right away, then grow
				// over what lies beyond the appended bytes
				sz := uint64(1+rng.Intn(2)) * BlockSize
				doOne(&Op{K: OpSetattr, H: o.FH, SetSize: true, Size: sz})
				s.nextUid++
				woff := sz
				if sz >= BlockSize {
					woff = sz - uint64(1+rng.Intn(60)) // across the new end
				}
				doOne(&Op{K: OpWrite, H: o.FH, Off: woff, Count: 100, DataLen: 100, Uid: s.nextUid, Stable: 2})
				doOne(&Op{K: OpSetattr, H: o.FH, SetSize: true, Size: sz + 3*BlockSize + 77})
				op = &Op{K: OpRead, H: o.FH, Off: 0, Count: 65536}
			default:
				sz := []uint64{0, BlockSize, 2 * BlockSize, uint64(rng.Intn(3 * BlockSize))}[rng.Intn(4)]
				if cas%2 == 1 {
					sz = 0 // truncated to nothing, blocks still being freed
				}
				op = &Op{K: OpSetattr, H: o.FH, SetSize: true, Size: sz}
			}
		case i%11 == 9:
			// a stable write into a hole of a pre-sized file (the file does not grow)
			if o := s.pickObj(KReg); o != nil && o.Size < 600*BlockSize {
				doOne(&Op{K: OpSetattr, H: o.FH, SetSize: true, Size: o.Size + uint64(3+rng.Intn(12))*BlockSize})
				if oo := s.m.Obj(o.FH); oo != nil && oo.Size > 2*BlockSize {
					s.nextUid++
					n := rng.PickU32([]uint32{10, BlockSize, 5000})
					op = &Op{K: OpWrite, H: o.FH, Off: oo.Size - 2*BlockSize - uint64(rng.Intn(BlockSize)), Count: n, DataLen: n, Uid: s.nextUid, Stable: 1 + rng.Intn(2)}
				}
			}
		case i%17 == 12:
			// a sparse file is truncated by more than one transaction can free
			// (the background shrinker is started although there is nothing to
			// free, so the trace stays short); unstable data was written just
			// before: the acknowledgement of the truncation is a stable one
			if o := s.pickObj(KReg); o != nil && o.Size < 64*BlockSize {
				doOne(&Op{K: OpSetattr, H: o.FH, SetSize: true, Size: o.Size + uint64(560+rng.Intn(40))*BlockSize})
				s.nextUid++
				doOne(&Op{K: OpWrite, H: o.FH, Off: uint64(rng.Intn(3)) * BlockSize, Count: 700, DataLen: 700, Uid: s.nextUid, Stable: 0})
				op = &Op{K: OpSetattr, H: o.FH, SetSize: true, Size: uint64(rng.Intn(2 * BlockSize))}
			}
		case i%19 == 7:
			// unstable data, then a SETATTR that changes nothing (size = current
			// size): its acknowledgement is a stable one all the same
			if o := s.pickObj(KReg); o != nil && o.Size < 64*BlockSize {
				s.nextUid++
				doOne(&Op{K: OpWrite, H: o.FH, Off: o.Size, Count: 700, DataLen: 700, Uid: s.nextUid, Stable: 0})
				if oo := s.m.Obj(o.FH); oo != nil {
					op = &Op{K: OpSetattr, H: o.FH, SetSize: true, Size: oo.Size}
				}
			}
		case cfg.Dense && i == cfg.NOps/2+1:
			// unstable writes around truncations: (1) a dense file is cut by more
			// than one transaction can free and an UNSTABLE write lands below the
			// old end while the free is still pending, then growth and a read;
			// (2) data in the double-indirect range, a cut to an unaligned size
			// inside it, unstable regrowth, a read of the bytes between
			r := doOne(&Op{K: OpCreate, H: s.srv.Root, Name: "dense"})
			if r.Stat == stOK {
				for k := 0; k < 9; k++ {
					s.nextUid++
					n := uint32(64 * BlockSize)
					doOne(&Op{K: OpWrite, H: r.FH, Off: uint64(k) * 64 * BlockSize, Count: n, DataLen: n, Uid: s.nextUid, Stable: 0})
				}
				doOne(&Op{K: OpCommit, H: r.FH})
				doOne(&Op{K: OpSetattr, H: r.FH, SetSize: true, Size: BlockSize + 100})
				s.nextUid++
				doOne(&Op{K: OpWrite, H: r.FH, Off: 3*BlockSize + 50, Count: 700, DataLen: 700, Uid: s.nextUid, Stable: 0})
				doOne(&Op{K: OpSetattr, H: r.FH, SetSize: true, Size: 12 * BlockSize})
				doOne(&Op{K: OpRead, H: r.FH, Off: 0, Count: 65536})
				s.nextUid++
				doOne(&Op{K: OpWrite, H: r.FH, Off: 530 * BlockSize, Count: 3000, DataLen: 3000, Uid: s.nextUid, Stable: 0})
				doOne(&Op{K: OpSetattr, H: r.FH, SetSize: true, Size: 530*BlockSize + 1000})
				s.nextUid++
				doOne(&Op{K: OpWrite, H: r.FH, Off: 531 * BlockSize, Count: 100, DataLen: 100, Uid: s.nextUid, Stable: 0})
				doOne(&Op{K: OpRead, H: r.FH, Off: 530 * BlockSize, Count: 8192})
				op = &Op{K: OpCommit, H: r.FH}
			}
		case cfg.WriteHeavy && i%13 == 6:
			// a request whose transaction the journal rejects (too large), in the
			// middle of unstable writes: it must fail without side effects on what
			// COMMIT later makes durable
			if o := s.pickObj(KReg); o != nil {
				s.nextUid++
				doOne(&Op{K: OpWrite, H: o.FH, Off: o.Size, Count: 3000, DataLen: 3000, Uid: s.nextUid, Stable: 0})
				doOne(&Op{K: OpSymlink, H: s.srv.Root, Name: fmt.Sprintf("huge%d", i), Target: longName(520*BlockSize+1, 'H')})
				doOne(&Op{K: OpCommit, H: o.FH, Off: 0, Count: 0})
				continue
			}
			op = &Op{K: OpSymlink, H: s.srv.Root, Name: fmt.Sprintf("huge%d", i), Target: longName(520*BlockSize+1, 'H')}
		case cfg.Restarts && i > 0 && i%17 == 0:
			// clean restart WITHOUT flush: unstable operations may be lost as a
			// suffix; the reference follows the state that is found
			j := w.cleanRestart(s, d, res)
			if j < 0 {
				break
			}
			curVerf = nil
			continue
		}
		if op == nil {
			if rng.Intn(4) == 0 {
				op = s.genRecycle()
			} else {
				op = s.genOp()
			}
		}
		// keep files small enough to be read completely from every image
		if op.K == OpWrite && op.Off > 700*BlockSize {
			op.Off %= 700 * BlockSize
		}
		if op.K == OpSetattr && op.SetSize && op.Size > 700*BlockSize {
			op.Size %= 700 * BlockSize
		}
		doOne(op)
	}
	s.srv.WaitIdle()
	s.srv.Flush()
	w.trace = d.StopRecording()
	res.Viol = append(res.Viol, sres.Viol...)
	res.Ops = len(w.ops)
	res.TraceLen = len(w.trace)
	res.Stats = sres.Stats
	s.srv.Shutdown()
	if len(w.ops) > 0 {
		for i := 0; i < minInt(8, len(w.ops)); i++ {
			res.Sample = append(res.Sample, w.ops[i].Desc)
		}
	}
	return w
}

// cleanRestart shuts the server down without flushing and restarts it; the
// visible state must be S_j for some j >= (last stable ack).  The reference
// continues from S_j.
func (w *crashWork) cleanRestart(s *Sess, d *CDisk, res *CrashRes) int {
	s.srv.WaitIdle()
	i := len(w.ops)
	d.Mark(EvCall, i)
	s.srv.Shutdown()
	s.srv = StartSrv(d, s.srv.Opts)
	got, werr := walkTree(s.srv.API, s.srv.Root, nil)
	d.Mark(EvRet, i)
	lo := 0
	for k, o := range w.ops {
		if o.Stable {
			lo = k + 1
		}
	}
	gs := dumpString(got)
	j := -1
	for k := len(w.dumps) - 1; k >= lo; k-- {
		if w.dumps[k] == gs && timesAgree(w.snaps[k], got) {
			j = k
			break
		}
	}
	for _, m := range werr.Msgs {
		res.Viol = append(res.Viol, Violation{Class: "crash", Msg: "after a clean restart: " + m})
	}
	if j < 0 {
		res.Viol = append(res.Viol, Violation{Class: "crash", Msg: fmt.Sprintf("after a clean restart (no flush) following op %d the tree equals no reference state S_%d..S_%d (a lost unstable suffix is the only legal loss); difference to S_%d (- reference, + server):\n%s", i, lo, len(w.dumps)-1, len(w.dumps)-1, diffDumps(w.dumps[len(w.dumps)-1], gs))})
		return -1
	}
	res.Lost.Add(fmt.Sprintf("clean-restart-lost-%d", len(w.dumps)-1-j))
	s.m = w.snaps[j].Clone()
	w.ops = append(w.ops, opRec{Op: &Op{K: OpRestart}, Stat: 0, Stable: true, Desc: fmt.Sprintf("RESTART (no flush) => state S_%d", j)})
	c := s.m.Clone()
	w.snaps = append(w.snaps, c)
	w.dumps = append(w.dumps, w.dumps[j])
	w.hmaps = append(w.hmaps, w.hmaps[j])
	return j
}

type imageJob struct {
	img    map[uint64][]byte
	lo, hi int
	cut    int
	kind   string // prefix | lossy | depth2
	desc   string
	want   int // depth2: the state that must be found (-1 = any in lo..hi)
	midShrink bool
	idx    int
}

type imageOut struct {
	viol   []Violation
	match  int
	key    string
	shrinking bool
	trace2 []DiskEv
	base2  map[uint64][]byte
}

// evalImage recovers one image and applies the oracles.
func (w *crashWork) evalImage(j imageJob, record bool) (out imageOut) {
	out.match = -1
	what := fmt.Sprintf("%s cut %d (%s) [S_%d..S_%d]", j.kind, j.cut, j.desc, j.lo, j.hi)
	add := func(class, f string, a ...interface{}) {
		out.viol = append(out.viol, Violation{Class: class, Msg: what + ": " + fmt.Sprintf(f, a...), Op: j.cut})
	}
	defer func() {
		if e := recover(); e != nil {
			buf := make([]byte, 4096)
			n := runtime.Stack(buf, false)
			add("crash", "panic while recovering/serving the image: %v\n%s", e, buf[:n])
		}
	}()
	d := NewCDiskFrom(w.size, j.img)
	if record {
		out.base2 = d.StartRecording()
	}
	if j.idx%2 == 1 && !record {
		// the journal's installer is held back while the server recovers and is
		// looked at: whatever it builds at start-up (allocators) and serves
		// must come through the log, not from the installed blocks
		d.HoldHome(uint64(common.LOGSIZE))
		defer d.ReleaseHome()
	}
	srv := StartSrv(d, SrvOpts{Unstable: w.cfg.Unstable})
	got, werr := walkTree(srv.API, srv.Root, nil)
	d.ReleaseHome()
	for _, m := range werr.Msgs {
		add("crash", "%s", m)
	}
	gs := dumpString(got)
	lo, hi := j.lo, j.hi
	if j.want >= 0 {
		lo, hi = j.want, j.want
	}
	for k := hi; k >= lo; k-- {
		if w.dumps[k] == gs && timesAgree(w.snaps[k], got) {
			out.match = k
			break
		}
	}
	if out.match < 0 {
		near := hi
		add("crash", "recovered tree equals no reference state in S_%d..S_%d; difference to S_%d (- reference, + recovered):\n%s\nops %d..%d: %s", lo, hi, near, diffDumps(w.dumps[near], gs), lo, hi, w.opsDesc(lo, hi))
	} else {
		gh := handleMap(got)
		for p, fh := range w.hmaps[out.match] {
			if g, ok := gh[p]; ok && !bytes.Equal(g, fh) {
				add("crash", "%s has handle %x after recovery, it was issued %x", p, g, fh)
			}
		}
	}
	fr := srv.Fsck(FsckOpts{AllowShrinking: true, CheckCaches: true})
	for _, m := range fr.Errs {
		add("fsck", "%s", m)
	}
	ncrash := len(out.viol)
	for _, m := range fr.Leaks {
		if strings.Contains(m, "in-memory allocator") {
			// the allocators are rebuilt by recovery: a recovered server that
			// would hand out numbers in use does not "keep serving correctly"
			add("crash", "after recovery: %s", m)
			ncrash++
		} else {
			add("leak", "%s", m)
		}
	}
	for _, m := range fr.CacheErrs {
		add("crash", "after recovery: %s", m)
		ncrash++
	}
	out.shrinking = len(fr.Shrinking) > 0
	out.key = hashStr(gs) + "/" + fr.StateHash
	if record {
		// depth 2 cuts the recovery itself (log replay, installation, hole
		// filling by the walk), not what a client does afterwards
		srv.WaitIdle()
		out.trace2 = d.StopRecording()
	}
	if out.match >= 0 && w.cfg.Continue && ncrash == 0 && (w.cfg.ContinueEvery <= 1 || j.idx%w.cfg.ContinueEvery == 0) {
		w.continuation(srv, out.match, fr.Shrinking, add)
	}
	srv.WaitIdle()
	srv.Shutdown()
	return out
}

func (w *crashWork) opsDesc(lo, hi int) string {
	var s []string
	for k := maxInt(0, lo-1); k < hi && k < len(w.ops); k++ {
		s = append(s, fmt.Sprintf("[%d] %s", k, w.ops[k].Desc))
	}
	if len(s) > 8 {
		s = append(s[:8], "...")
	}
	return strings.Join(s, "; ")
}

// continuation: the recovered server must keep serving correctly: a fixed
// workload in lock-step with the reference state that was matched, with
// enough allocations to reuse the lowest free inode/block numbers (after a
// restart the allocators start at 0) and the numbers of half-freed inodes.
func (w *crashWork) continuation(srv *Srv, match int, shrinking []uint64, add func(class, f string, a ...interface{})) {
	sres := &SeqRes{Stats: Counter{}, States: map[string]bool{}, DeadProbes: Counter{}}
	s := &Sess{p: Profile{Name: "cont", Unstable: w.cfg.Unstable}, rng: NewRng(uint64(match) + 99), srv: srv, res: sres, inumSeen: map[uint64]int{}}
	s.m = w.snaps[match].Clone()
	s.names = namePool
	root := srv.Root
	// a file whose truncation was cut short by the crash: remove it now (its
	// free is still in progress), so that its number is reused below
	if debugOn {
		desc := ""
		for _, o := range s.m.LiveObjs() {
			if o.FH != nil && len(shrinking) > 0 && leU64(o.FH) == shrinking[0] {
				desc = fmt.Sprintf("live obj #%d kind %d size %d", o.ID, o.Kind, o.Size)
			}
		}
		fmt.Println("DEBUG continuation match", match, "shrinking", shrinking, desc, "lastop", w.ops[len(w.ops)-1].Desc)
	}
	for _, inum := range shrinking {
		for _, d := range s.m.LiveObjs() {
			if d.Kind != KDir || d.FH == nil {
				continue
			}
			for n, id := range d.Ents {
				if c := s.m.Objs[id]; c.Kind == KReg && c.FH != nil && leU64(c.FH) == inum && match%2 == 0 {
					rr := s.exec(&Op{K: OpRemove, H: d.FH, Name: n})
					if debugOn {
						fmt.Println("DEBUG continuation removes", n, "inum", inum, "match", match, "->", rr.Stat)
					}
				}
			}
		}
	}
	// the first allocation after a restart gets the lowest free inode number:
	// make it a regular file and look at everything it shows
	if cf := s.exec(&Op{K: OpCreate, H: root, Name: "contfile"}); cf.Stat == stOK {
		s.nextUid++
		s.exec(&Op{K: OpWrite, H: cf.FH, Off: 5000, Count: 3000, DataLen: 3000, Uid: 900000 + s.nextUid, Stable: 2})
		s.exec(&Op{K: OpSetattr, H: cf.FH, SetSize: true, Size: 40 * BlockSize})
		s.exec(&Op{K: OpRead, H: cf.FH, Off: 0, Count: 65536})
		s.exec(&Op{K: OpRead, H: cf.FH, Off: 65536, Count: 65536})
		s.exec(&Op{K: OpRead, H: cf.FH, Off: 131072, Count: 65536})
	}
	r := s.exec(&Op{K: OpMkdir, H: root, Name: "cont"})
	if r.Stat == stOK {
		dfh := r.FH
		n := 6
		maxShr := uint64(0)
		for _, x := range shrinking {
			if x > maxShr {
				maxShr = x
			}
		}
		if maxShr > 0 {
			n = int(minU64(maxShr+4, 300))
		}
		for i := 0; i < n && len(sres.Viol) == 0; i++ {
			c := s.exec(&Op{K: OpCreate, H: dfh, Name: fmt.Sprintf("c%d", i)})
			if c.Stat != stOK {
				break
			}
			if i < 6 {
				s.nextUid++
				cnt := uint32(3000 + i*5000)
				s.exec(&Op{K: OpWrite, H: c.FH, Off: uint64(i) * 1000, Count: cnt, DataLen: cnt, Uid: 900000 + s.nextUid, Stable: i % 3})
				s.exec(&Op{K: OpRead, H: c.FH, Off: 0, Count: 65536})
			}
		}
		s.exec(&Op{K: OpRename, H: dfh, Name: "c0", H2: root, Name2: "moved"})
		s.exec(&Op{K: OpRemove, H: dfh, Name: "c1"})
		s.exec(&Op{K: OpSymlink, H: dfh, Name: "sl", Target: "somewhere"})
		// touch existing objects of the recovered tree
		for _, o := range s.m.LiveObjs() {
			if o.FH == nil || o.ID > 8 {
				continue
			}
			switch o.Kind {
			case KReg:
				s.nextUid++
				// across the end (if the crash cut a truncation short, what lies
				// beyond the end is still attached)
				s.exec(&Op{K: OpWrite, H: o.FH, Off: o.Size - minU64(o.Size, 37), Count: 100, DataLen: 100, Uid: 900000 + s.nextUid, Stable: 2})
				s.exec(&Op{K: OpRead, H: o.FH, Off: 0, Count: 65536})
				// grow over whatever lies beyond the end and look at it
				end := o.Size
				s.exec(&Op{K: OpSetattr, H: o.FH, SetSize: true, Size: end + 6000})
				s.exec(&Op{K: OpRead, H: o.FH, Off: end - minU64(end, 200), Count: 8192})
			case KDir:
				s.exec(&Op{K: OpReaddirplus, H: o.FH, Count: 65536, Dircount: 65536})
			}
		}
	} else {
		add("crash", "continuation: MKDIR on the recovered server fails with status %d", r.Stat)
	}
	if len(sres.Viol) == 0 {
		s.walkCompare("dump", "continuation")
		srv.WaitIdle()
		fr := srv.Fsck(FsckOpts{AllowShrinking: len(shrinking) > 0 && maxInum(shrinking) > 300, CheckCaches: true})
		for _, m := range fr.Errs {
			add("fsck", "after the continuation: %s", m)
		}
		for _, m := range fr.Leaks {
			add("leak", "after the continuation (half-freed inode numbers were reused): %s", m)
		}
		for _, m := range fr.CacheErrs {
			add("crash", "after the continuation: %s", m)
		}
	}
	for _, v := range sres.Viol {
		add("crash", "continuation on the recovered server: %s", v.Msg)
	}
}

func maxInum(a []uint64) uint64 {
	m := uint64(0)
	for _, x := range a {
		if x > m {
			m = x
		}
	}
	return m
}

func runCrash(cfg CrashCfg, seed uint64, cas int) *CrashRes {
	res := &CrashRes{Distinct: map[string]bool{}, Hist: Counter{}, Lost: Counter{}, Stats: Counter{}}
	w := runCrashWorkload(cfg, seed, cas, res)
	if w == nil || len(res.Viol) > 0 {
		return res
	}
	res.VerfInstances = len(w.verfs)
	// Images are produced lazily (a materialised image is a map with one entry
	// per block of the disk that was ever written: thousands of them at once
	// do not fit in memory) and evaluated by a few workers; the recovery runs
	// chosen for depth 2 are cut and evaluated by the same worker right away.
	par := runtime.GOMAXPROCS(0)
	if par > 4 {
		par = 4
	}
	ch := make(chan imageJob, 2*par)
	total := 0
	go func() {
		defer close(ch)
		it := NewCutIter(w.size, w.base, w.trace)
		rng := NewRng(mix(seed, uint64(cas)+555))
		lo, hi := 0, 0
		cutNo := 0
		prevWrites := -1
		nw := 0
		idx := 0
		send := func(j imageJob) {
			j.idx = idx
			idx++
			ch <- j
		}
		for {
			e, ok := it.Step()
			if !ok {
				break
			}
			switch e.Kind {
			case EvCall:
				hi = int(e.Addr) + 1
			case EvRet:
				if w.ops[e.Addr].Stable {
					lo = int(e.Addr) + 1
					// the instant right after a stable acknowledgement (it may have
					// caused no disk write at all)
					send(imageJob{img: it.PrefixImage(), lo: lo, hi: hi, cut: it.pos, kind: "prefix", desc: fmt.Sprintf("right after the stable acknowledgement of op %d", e.Addr), want: -1})
				}
			case EvWrite:
				nw++
			}
			if e.Kind != EvWrite && e.Kind != EvBarrier {
				continue
			}
			cutNo++
			if cfg.CutStride > 1 && cutNo%cfg.CutStride != 0 {
				continue
			}
			if e.Kind == EvWrite || nw != prevWrites {
				send(imageJob{img: it.PrefixImage(), lo: lo, hi: hi, cut: it.pos, kind: "prefix", desc: evDesc(e), want: -1})
				prevWrites = nw
			}
			if cfg.Lossy > 0 && it.WindowSize() > 0 {
				for k := 0; k < cfg.Lossy; k++ {
					img, desc := it.LossyImage(rng)
					send(imageJob{img: img, lo: lo, hi: hi, cut: it.pos, kind: "lossy", desc: "blocks addr:choice/options " + desc, want: -1})
				}
			}
		}
		total = cutNo
	}()
	var mu sync.Mutex
	var wg sync.WaitGroup
	for g := 0; g < par; g++ {
		wg.Add(1)
		go func() {
			defer wg.Done()
			for j := range ch {
				mu.Lock()
				stop := len(res.Viol) >= 6
				if j.kind == "lossy" {
					res.LossyN++
				}
				mu.Unlock()
				if stop {
					continue // drain
				}
				childLog("image %d %s cut=%d", j.idx, j.kind, j.cut)
				rec := cfg.Depth2Every > 0 && j.idx%cfg.Depth2Every == 0
				out := w.evalImage(j, rec)
				mu.Lock()
				res.Images++
				res.Viol = append(res.Viol, out.viol...)
				if out.match >= 0 {
					res.Hist.Add(fmt.Sprintf("matched_lo+%d", out.match-j.lo))
					res.Lost.Add(fmt.Sprintf("lost-%d", j.hi-out.match))
					nontriv := j.lo < j.hi
					if nontriv {
						res.NonTrivial++
						res.Distinct[out.key+fmt.Sprint(j.lo, j.hi)] = true
						if j.hi-j.lo > 1 {
							res.UnstableSuffix++
						}
					}
				}
				if out.shrinking {
					res.MidShrink++
				}
				mu.Unlock()
				if rec && len(out.viol) == 0 && out.match >= 0 {
					// depth 2: the recovery run itself is cut again
					it2 := NewCutIter(w.size, out.base2, out.trace2)
					n2 := 0
					for {
						e2, ok := it2.Step()
						if !ok {
							break
						}
						if e2.Kind != EvWrite {
							continue
						}
						n2++
						if n2%maxInt(1, cfg.Depth2Stride) != 0 {
							continue
						}
						mu.Lock()
						stop := len(res.Viol) >= 6
						mu.Unlock()
						if stop {
							break
						}
						j2 := imageJob{img: it2.PrefixImage(), lo: out.match, hi: out.match, cut: j.cut*100000 + it2.pos, kind: "depth2", desc: fmt.Sprintf("recovery of %s cut %d, itself cut after its write #%d", j.kind, j.cut, n2), want: out.match}
						childLog("depth2 image cut=%d", j2.cut)
						out2 := w.evalImage(j2, false)
						mu.Lock()
						res.Images++
						res.Depth2++
						res.Viol = append(res.Viol, out2.viol...)
						mu.Unlock()
					}
				}
			}
		}()
	}
	wg.Wait()
	res.Cuts = total
	return res
}

func evDesc(e DiskEv) string {
	if e.Kind == EvBarrier {
		return "after a barrier"
	}
	return fmt.Sprintf("after write of block %d", e.Addr)
}

// timesAgree: the tree dump does not contain times; two reference states that
// differ only in a client-set atime/mtime are told apart here.
func timesAgree(m *Model, got []DumpEnt) bool {
	byFH := map[string]DumpEnt{}
	for _, e := range got {
		byFH[string(e.FH)] = e
	}
	for _, o := range m.LiveObjs() {
		if o.FH == nil || (!o.AtimeC && !o.MtimeC) {
			continue
		}
		e, ok := byFH[string(o.FH)]
		if !ok {
			continue
		}
		if (o.AtimeC && e.Atime != o.Atime) || (o.MtimeC && e.Mtime != o.Mtime) {
			return false
		}
	}
	return true
}

var debugOn = envInt("VERIF_DEBUG", 0) != 0
