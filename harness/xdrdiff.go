package main

// C16: differential codec monitor.  Every nfstypes type with an Xdr method is
// paired (generated registry, xdrreg_gen.go) with the type of the same name in
// go-rpcgen's rfc1813 package, which is generated from the RFC's .x file.

import (
	"bytes"
	"encoding/hex"
	"fmt"
	"net"
	"reflect"
	"runtime"
	"sync"

	nt "github.com/mit-pdos/go-nfsd/nfstypes"
	"github.com/zeldovich/go-rpcgen/rfc1057"
	rfc "github.com/zeldovich/go-rpcgen/rfc1813"
	"github.com/zeldovich/go-rpcgen/xdr"
)

type XdrRes struct {
	Viol    []Violation
	Values  int
	Bytes   int // byte strings offered to the decoders
	Types   map[string]bool
	Arms    map[string]bool
	Procs   int
	Vectors int
	Sample  []string
	Known   []string
}

const sigUnboundedArray = "decode-unbounded-array-length"

// hasCountedArray: does the type (transitively) contain a variable-length
// array of non-byte elements, whose decoder allocates "count" elements before
// reading any of them?
func hasCountedArray(t reflect.Type, depth int) bool {
	if depth > 6 {
		return false
	}
	switch t.Kind() {
	case reflect.Slice:
		return t.Elem().Kind() != reflect.Uint8
	case reflect.Struct:
		for i := 0; i < t.NumField(); i++ {
			if hasCountedArray(t.Field(i).Type, depth+1) {
				return true
			}
		}
	case reflect.Ptr:
		return hasCountedArray(t.Elem(), depth+1)
	}
	return false
}

// probeUnboundedArray offers a 16-byte Mountres3 whose auth-flavor count is
// 2^26 to the decoder and measures what it allocates.
func probeUnboundedArray() (allocated uint64, err error) {
	msg := cat(be32(0), be32(0), be32(1<<26), be32(7))
	var m0, m1 runtime.MemStats
	runtime.ReadMemStats(&m0)
	var v nt.Mountres3
	_, err = decodeSafe(msg, &v)
	runtime.ReadMemStats(&m1)
	return m1.TotalAlloc - m0.TotalAlloc, err
}

var u32Pool = []uint32{0, 1, 2, 3, 4, 5, 6, 7, 8, 13, 17, 20, 22, 28, 63, 66, 70, 10001, 10004, 10006, 0x7fffffff, 0x80000000, 0xffffffff}
var lenPool = []int{0, 1, 2, 3, 4, 5, 8, 16, 63, 64, 65, 112, 255, 256, 1000}

// lengths around the bounds that occur in the protocol (255, 1024) and well
// beyond them: unbounded strings and opaques must take any length
var bigLenPool = []int{1023, 1024, 1025, 2000, 4095, 4096, 4097, 70000}

func pickLen(r *Rng) int {
	if r.Intn(8) == 0 {
		return bigLenPool[r.Intn(len(bigLenPool))]
	}
	return lenPool[r.Intn(len(lenPool))]
}

func fillRandom(v reflect.Value, r *Rng, depth int) {
	switch v.Kind() {
	case reflect.Bool:
		v.SetBool(r.Intn(2) == 0)
	case reflect.Uint32:
		if r.Intn(4) == 0 {
			v.SetUint(uint64(uint32(r.U64())))
		} else {
			v.SetUint(uint64(u32Pool[r.Intn(len(u32Pool))]))
		}
	case reflect.Int32:
		v.SetInt(int64(int32(r.U64())))
	case reflect.Uint64:
		switch r.Intn(4) {
		case 0:
			v.SetUint(0)
		case 1:
			v.SetUint(^uint64(0))
		default:
			v.SetUint(r.U64() >> uint(r.Intn(64)))
		}
	case reflect.Int64:
		v.SetInt(int64(r.U64()))
	case reflect.String:
		n := pickLen(r)
		b := make([]byte, n)
		for i := range b {
			b[i] = byte('a' + r.Intn(26))
			if r.Intn(20) == 0 {
				b[i] = byte(r.U64())
			}
		}
		v.SetString(string(b))
	case reflect.Slice:
		if v.Type().Elem().Kind() == reflect.Uint8 {
			n := pickLen(r)
			b := make([]byte, n)
			for i := range b {
				b[i] = byte(r.U64())
			}
			v.SetBytes(b)
		} else {
			n := r.Intn(3)
			s := reflect.MakeSlice(v.Type(), n, n)
			for i := 0; i < n; i++ {
				fillRandom(s.Index(i), r, depth+1)
			}
			v.Set(s)
		}
	case reflect.Array:
		for i := 0; i < v.Len(); i++ {
			fillRandom(v.Index(i), r, depth+1)
		}
	case reflect.Uint8:
		v.SetUint(uint64(byte(r.U64())))
	case reflect.Struct:
		for i := 0; i < v.NumField(); i++ {
			fillRandom(v.Field(i), r, depth+1)
		}
	case reflect.Ptr:
		// optional / linked list: 0, 1 or many elements
		if depth < 12 && r.Intn(3) != 0 {
			p := reflect.New(v.Type().Elem())
			fillRandom(p.Elem(), r, depth+1)
			v.Set(p)
		} else {
			v.Set(reflect.Zero(v.Type()))
		}
	}
}

// copyShape copies src into dst; the two types have the same shape (same
// generator, same .x source).
func copyShape(dst, src reflect.Value) error {
	if dst.Kind() != src.Kind() {
		return fmt.Errorf("kind %v vs %v", dst.Kind(), src.Kind())
	}
	switch src.Kind() {
	case reflect.Bool:
		dst.SetBool(src.Bool())
	case reflect.Uint32, reflect.Uint64, reflect.Uint8:
		dst.SetUint(src.Uint())
	case reflect.Int32, reflect.Int64:
		dst.SetInt(src.Int())
	case reflect.String:
		dst.SetString(src.String())
	case reflect.Slice:
		if src.IsNil() {
			dst.Set(reflect.Zero(dst.Type()))
			return nil
		}
		s := reflect.MakeSlice(dst.Type(), src.Len(), src.Len())
		for i := 0; i < src.Len(); i++ {
			if err := copyShape(s.Index(i), src.Index(i)); err != nil {
				return err
			}
		}
		dst.Set(s)
	case reflect.Array:
		if dst.Len() != src.Len() {
			return fmt.Errorf("array length %d vs %d", dst.Len(), src.Len())
		}
		for i := 0; i < src.Len(); i++ {
			if err := copyShape(dst.Index(i), src.Index(i)); err != nil {
				return err
			}
		}
	case reflect.Struct:
		if dst.NumField() != src.NumField() {
			return fmt.Errorf("struct %s has %d fields, RFC type has %d", src.Type().Name(), src.NumField(), dst.NumField())
		}
		for i := 0; i < src.NumField(); i++ {
			if dst.Type().Field(i).Name != src.Type().Field(i).Name {
				return fmt.Errorf("struct %s field %d is %s, RFC type has %s", src.Type().Name(), i, src.Type().Field(i).Name, dst.Type().Field(i).Name)
			}
			if err := copyShape(dst.Field(i), src.Field(i)); err != nil {
				return err
			}
		}
	case reflect.Ptr:
		if src.IsNil() {
			dst.Set(reflect.Zero(dst.Type()))
			return nil
		}
		p := reflect.New(dst.Type().Elem())
		if err := copyShape(p.Elem(), src.Elem()); err != nil {
			return err
		}
		dst.Set(p)
	default:
		return fmt.Errorf("unsupported kind %v", src.Kind())
	}
	return nil
}

func encodeSafe(v xdr.Xdrable) (b []byte, err error) {
	defer func() {
		if e := recover(); e != nil {
			err = fmt.Errorf("panic: %v", e)
		}
	}()
	return xdr.EncodeBuf(v)
}

func decodeSafe(b []byte, v xdr.Xdrable) (rest int, err error) {
	defer func() {
		if e := recover(); e != nil {
			err = fmt.Errorf("panic: %v", e)
		}
	}()
	rd := xdr.MakeReader(b)
	v.Xdr(rd)
	return 0, rd.Error()
}

// armKey describes which union arms / optional shapes a value exercises.
func armKey(name string, v reflect.Value) string {
	k := name
	if v.Kind() == reflect.Struct {
		for i := 0; i < v.NumField() && i < 2; i++ {
			f := v.Field(i)
			switch f.Kind() {
			case reflect.Uint32:
				x := f.Uint()
				if x > 8 {
					x = 9
				}
				k += fmt.Sprintf("/%s=%d", v.Type().Field(i).Name, x)
			case reflect.Bool:
				k += fmt.Sprintf("/%s=%v", v.Type().Field(i).Name, f.Bool())
			case reflect.Ptr:
				k += fmt.Sprintf("/%s.nil=%v", v.Type().Field(i).Name, f.IsNil())
			}
		}
	}
	return k
}

func runXdr(seed uint64, cas int, iters int) *XdrRes {
	res := &XdrRes{Types: map[string]bool{}, Arms: map[string]bool{}}
	rng := NewRng(mix(seed, uint64(cas)+161616))
	viol := func(f string, a ...interface{}) {
		if len(res.Viol) < 10 {
			res.Viol = append(res.Viol, Violation{Class: "xdr", Msg: fmt.Sprintf(f, a...)})
		}
	}
	for _, n := range xdrNoCounterpart {
		viol("type %s has an Xdr method but no counterpart in the RFC 1813 protocol description", n)
	}
	for _, tp := range xdrRegistry {
		for it := 0; it < iters && len(res.Viol) == 0; it++ {
			ours := tp.Ours()
			theirs := tp.RFC()
			ov := reflect.ValueOf(ours).Elem()
			fillRandom(ov, rng, 0)
			if err := copyShape(reflect.ValueOf(theirs).Elem(), ov); err != nil {
				viol("type %s does not have the shape of the RFC type: %v", tp.Name, err)
				break
			}
			res.Values++
			res.Types[tp.Name] = true
			res.Arms[armKey(tp.Name, ov)] = true
			b1, e1 := encodeSafe(ours)
			b2, e2 := encodeSafe(theirs)
			if (e1 == nil) != (e2 == nil) {
				viol("type %s value %+v: our encoder says %v, the RFC encoder says %v", tp.Name, ov.Interface(), e1, e2)
				break
			}
			if e1 != nil {
				continue
			}
			if !bytes.Equal(b1, b2) {
				viol("type %s value %+v: encoded as %s, the RFC layout is %s", tp.Name, ov.Interface(), hexShort(b1), hexShort(b2))
				break
			}
			if len(res.Sample) < 3 && len(b1) > 8 && len(b1) < 80 {
				res.Sample = append(res.Sample, fmt.Sprintf("%s %+v -> %s", tp.Name, ov.Interface(), hex.EncodeToString(b1)))
			}
			// decode what was encoded: must succeed and re-encode to the same bytes
			back := tp.Ours()
			if _, err := decodeSafe(b1, back); err != nil {
				viol("type %s: decoding its own encoding %s fails: %v", tp.Name, hexShort(b1), err)
				break
			}
			b3, e3 := encodeSafe(back)
			if e3 != nil || !bytes.Equal(b3, b1) {
				viol("type %s: decode(encode(v)) re-encodes as %s, was %s (%v)", tp.Name, hexShort(b3), hexShort(b1), e3)
				break
			}
			// the decoded value must carry the same information as the RFC decoder's
			rb := tp.RFC()
			if _, err := decodeSafe(b1, rb); err != nil {
				viol("type %s: the RFC decoder rejects our encoding %s: %v", tp.Name, hexShort(b1), err)
				break
			}
			conv := tp.RFC()
			if err := copyShape(reflect.ValueOf(conv).Elem(), reflect.ValueOf(back).Elem()); err == nil {
				if !reflect.DeepEqual(conv, rb) {
					viol("type %s: our decoder yields %+v, the RFC decoder %+v for %s", tp.Name, reflect.ValueOf(back).Elem().Interface(), reflect.ValueOf(rb).Elem().Interface(), hexShort(b1))
					break
				}
			}
			// malformed / truncated / arbitrary byte strings
			nm := 6
			if knownOpen("C16", sigUnboundedArray) && hasCountedArray(ov.Type(), 0) {
				nm = 2 // open known finding: a hostile count makes the decoder allocate gigabytes
			}
			for m := 0; m < nm; m++ {
				var mb []byte
				truncated := false
				switch m {
				case 0, 1:
					if len(b1) == 0 {
						continue
					}
					mb = append([]byte{}, b1[:rng.Intn(len(b1))]...)
					truncated = true
				case 2, 3:
					mb = append([]byte{}, b1...)
					for k := 0; k < 1+rng.Intn(3) && len(mb) > 0; k++ {
						mb[rng.Intn(len(mb))] = byte(rng.U64())
					}
				case 4:
					mb = make([]byte, rng.Intn(64))
					for i := range mb {
						mb[i] = byte(rng.U64())
					}
				case 5:
					mb = append(append([]byte{}, b1...), byte(rng.U64()), 0, 0, 1)
				}
				res.Bytes++
				d1 := tp.Ours()
				d2 := tp.RFC()
				_, err1 := decodeSafe(mb, d1)
				_, err2 := decodeSafe(mb, d2)
				if (err1 == nil) != (err2 == nil) {
					viol("type %s bytes %s: our decoder says %v, the RFC decoder says %v", tp.Name, hexShort(mb), err1, err2)
					break
				}
				if truncated && err1 == nil {
					viol("type %s: the truncated encoding %s (of %d bytes) is accepted", tp.Name, hexShort(mb), len(b1))
					break
				}
				if err1 == nil {
					c := tp.RFC()
					if copyShape(reflect.ValueOf(c).Elem(), reflect.ValueOf(d1).Elem()) == nil && !reflect.DeepEqual(c, d2) {
						viol("type %s bytes %s: our decoder yields %+v, the RFC decoder %+v", tp.Name, hexShort(mb), reflect.ValueOf(d1).Elem().Interface(), reflect.ValueOf(d2).Elem().Interface())
						break
					}
				}
			}
		}
	}
	if cas == 0 {
		if n, err := probeUnboundedArray(); n > 64<<20 {
			msg := fmt.Sprintf("decoding a 16-byte Mountres3 message whose auth-flavor count is 2^26 allocates %d MiB before the decoder notices that the bytes are missing (err: %v): a malformed message is not rejected cheaply", n>>20, err)
			if knownOpen("C16", sigUnboundedArray) {
				res.Known = append(res.Known, sigUnboundedArray)
			} else {
				viol("%s", msg)
			}
		}
		res.Vectors = checkVectors(viol)
		res.Procs = checkDispatch(viol)
	}
	_ = rfc.NFS3_OK
	return res
}

func hexShort(b []byte) string {
	if len(b) > 96 {
		return hex.EncodeToString(b[:96]) + fmt.Sprintf("...(%d bytes)", len(b))
	}
	return hex.EncodeToString(b)
}

// ---------------------------------------------------------------------------
// hand-derived RFC 1813 byte vectors (guard against a defect shared by both
// generated codecs)

func be32(x uint32) []byte { return []byte{byte(x >> 24), byte(x >> 16), byte(x >> 8), byte(x)} }
func be64(x uint64) []byte { return append(be32(uint32(x>>32)), be32(uint32(x))...) }
func opaque(b []byte) []byte {
	o := append(be32(uint32(len(b))), b...)
	for len(o)%4 != 0 {
		o = append(o, 0)
	}
	return o
}
func cat(xs ...[]byte) []byte {
	var o []byte
	for _, x := range xs {
		o = append(o, x...)
	}
	return o
}

func checkVectors(viol func(string, ...interface{})) int {
	fh := []byte{1, 2, 3, 4, 5, 6, 7, 8, 9, 10, 11, 12, 13, 14, 15, 16}
	fh5 := []byte{9, 8, 7, 6, 5}
	type vec struct {
		name string
		v    xdr.Xdrable
		want []byte
	}
	f := nt.Nfs_fh3{Data: fh}
	vs := []vec{
		{"GETATTR3args", &nt.GETATTR3args{Object: f}, opaque(fh)},
		{"LOOKUP3args", &nt.LOOKUP3args{What: nt.Diropargs3{Dir: nt.Nfs_fh3{Data: fh5}, Name: "hello"}}, cat(opaque(fh5), opaque([]byte("hello")))},
		{"ACCESS3args", &nt.ACCESS3args{Object: f, Access: 0x2f}, cat(opaque(fh), be32(0x2f))},
		{"READ3args", &nt.READ3args{File: f, Offset: 0x0102030405060708, Count: 4096}, cat(opaque(fh), be64(0x0102030405060708), be32(4096))},
		{"WRITE3args", &nt.WRITE3args{File: f, Offset: 5, Count: 3, Stable: nt.FILE_SYNC, Data: []byte{0xaa, 0xbb, 0xcc}}, cat(opaque(fh), be64(5), be32(3), be32(2), opaque([]byte{0xaa, 0xbb, 0xcc}))},
		{"CREATE3args(unchecked,size)", &nt.CREATE3args{Where: nt.Diropargs3{Dir: f, Name: "n"}, How: nt.Createhow3{Mode: nt.UNCHECKED, Obj_attributes: nt.Sattr3{Size: nt.Set_size3{Set_it: true, Size: 7}}}},
			cat(opaque(fh), opaque([]byte("n")), be32(0), be32(0), be32(0), be32(0), be32(1), be64(7), be32(0), be32(0))},
		{"CREATE3args(exclusive)", &nt.CREATE3args{Where: nt.Diropargs3{Dir: f, Name: "n"}, How: nt.Createhow3{Mode: nt.EXCLUSIVE, Verf: nt.Createverf3{1, 2, 3, 4, 5, 6, 7, 8}}},
			cat(opaque(fh), opaque([]byte("n")), be32(2), []byte{1, 2, 3, 4, 5, 6, 7, 8})},
		{"SETATTR3args(mtime client, guard)", &nt.SETATTR3args{Object: f, New_attributes: nt.Sattr3{Mtime: nt.Set_mtime{Set_it: nt.SET_TO_CLIENT_TIME, Mtime: nt.Nfstime3{Seconds: 10, Nseconds: 20}}}, Guard: nt.Sattrguard3{Check: true, Obj_ctime: nt.Nfstime3{Seconds: 1, Nseconds: 2}}},
			cat(opaque(fh), be32(0), be32(0), be32(0), be32(0), be32(0), be32(2), be32(10), be32(20), be32(1), be32(1), be32(2))},
		{"RENAME3args", &nt.RENAME3args{From: nt.Diropargs3{Dir: f, Name: "a"}, To: nt.Diropargs3{Dir: nt.Nfs_fh3{Data: fh5}, Name: "bcd"}}, cat(opaque(fh), opaque([]byte("a")), opaque(fh5), opaque([]byte("bcd")))},
		{"READDIRPLUS3args", &nt.READDIRPLUS3args{Dir: f, Cookie: 0x80, Cookieverf: nt.Cookieverf3{8, 7, 6, 5, 4, 3, 2, 1}, Dircount: 512, Maxcount: 4096}, cat(opaque(fh), be64(0x80), []byte{8, 7, 6, 5, 4, 3, 2, 1}, be32(512), be32(4096))},
		{"COMMIT3args", &nt.COMMIT3args{File: f, Offset: 1 << 40, Count: 9}, cat(opaque(fh), be64(1<<40), be32(9))},
		{"GETATTR3res(fail)", &nt.GETATTR3res{Status: nt.NFS3ERR_STALE}, be32(70)},
		{"LOOKUP3res(fail, no attr)", &nt.LOOKUP3res{Status: nt.NFS3ERR_NOENT}, cat(be32(2), be32(0))},
		{"WRITE3res(ok)", &nt.WRITE3res{Status: nt.NFS3_OK, Resok: nt.WRITE3resok{Count: 3, Committed: nt.FILE_SYNC, Verf: nt.Writeverf3{1, 1, 1, 1, 2, 2, 2, 2}}}, cat(be32(0), be32(0), be32(0), be32(3), be32(2), []byte{1, 1, 1, 1, 2, 2, 2, 2})},
		{"READDIR3res(ok, one entry)", &nt.READDIR3res{Status: nt.NFS3_OK, Resok: nt.READDIR3resok{Reply: nt.Dirlist3{Entries: &nt.Entry3{Fileid: 5, Name: "x", Cookie: 128}, Eof: true}}},
			cat(be32(0), be32(0), make([]byte, 8), be32(1), be64(5), opaque([]byte("x")), be64(128), be32(0), be32(1))},
		{"Mountres3(ok)", &nt.Mountres3{Fhs_status: nt.MNT3_OK, Mountinfo: nt.Mountres3_ok{Fhandle: fh, Auth_flavors: []uint32{1}}}, cat(be32(0), opaque(fh), be32(1), be32(1))},
	}
	for _, v := range vs {
		b, err := encodeSafe(v.v)
		if err != nil || !bytes.Equal(b, v.want) {
			viol("hand-derived RFC 1813 vector %s: encoded %s (%v), want %s", v.name, hexShort(b), err, hexShort(v.want))
		}
	}
	return len(vs)
}

// ---------------------------------------------------------------------------
// dispatch: every procedure number must reach the handler of that procedure

type recHandler struct {
	mu    sync.Mutex
	last  string
	fh    []byte
	arg   interface{} // the whole argument value the handler was called with
	conc  bool        // concurrent mode: WRITE arguments carry one byte value in handle and data
	mixed int
}

func (h *recHandler) setArg(a interface{}) {
	h.mu.Lock()
	h.arg = a
	h.mu.Unlock()
}

func (h *recHandler) rec(name string, fh []byte) {
	h.mu.Lock()
	h.last = name
	h.fh = nil
	if fh != nil {
		h.fh = append([]byte{}, fh...)
	}
	h.mu.Unlock()
}
func (h *recHandler) NFSPROC3_NULL() { h.rec("NFSPROC3_NULL", nil) }
func (h *recHandler) NFSPROC3_GETATTR(a nt.GETATTR3args) (r nt.GETATTR3res) {
	h.setArg(a)
	h.rec("NFSPROC3_GETATTR", a.Object.Data)
	return
}
func (h *recHandler) NFSPROC3_SETATTR(a nt.SETATTR3args) (r nt.SETATTR3res) {
	h.setArg(a)
	h.rec("NFSPROC3_SETATTR", a.Object.Data)
	return
}
func (h *recHandler) NFSPROC3_LOOKUP(a nt.LOOKUP3args) (r nt.LOOKUP3res) {
	h.setArg(a)
	h.rec("NFSPROC3_LOOKUP", a.What.Dir.Data)
	return
}
func (h *recHandler) NFSPROC3_ACCESS(a nt.ACCESS3args) (r nt.ACCESS3res) {
	h.setArg(a)
	h.rec("NFSPROC3_ACCESS", a.Object.Data)
	return
}
func (h *recHandler) NFSPROC3_READLINK(a nt.READLINK3args) (r nt.READLINK3res) {
	h.setArg(a)
	h.rec("NFSPROC3_READLINK", a.Symlink.Data)
	return
}
func (h *recHandler) NFSPROC3_READ(a nt.READ3args) (r nt.READ3res) {
	h.setArg(a)
	h.rec("NFSPROC3_READ", a.File.Data)
	return
}
func (h *recHandler) NFSPROC3_WRITE(a nt.WRITE3args) (r nt.WRITE3res) {
	h.setArg(a)
	if h.conc && len(a.File.Data) > 0 && len(a.Data) > 0 {
		bad := false
		for _, x := range a.Data {
			if x != a.File.Data[0] {
				bad = true
			}
		}
		if bad || uint32(a.Count) != uint32(a.File.Data[0]) {
			h.mu.Lock()
			h.mixed++
			h.mu.Unlock()
		}
	}
	h.rec("NFSPROC3_WRITE", a.File.Data)
	return
}
func (h *recHandler) NFSPROC3_CREATE(a nt.CREATE3args) (r nt.CREATE3res) {
	h.setArg(a)
	h.rec("NFSPROC3_CREATE", a.Where.Dir.Data)
	return
}
func (h *recHandler) NFSPROC3_MKDIR(a nt.MKDIR3args) (r nt.MKDIR3res) {
	h.setArg(a)
	h.rec("NFSPROC3_MKDIR", a.Where.Dir.Data)
	return
}
func (h *recHandler) NFSPROC3_SYMLINK(a nt.SYMLINK3args) (r nt.SYMLINK3res) {
	h.setArg(a)
	h.rec("NFSPROC3_SYMLINK", a.Where.Dir.Data)
	return
}
func (h *recHandler) NFSPROC3_MKNOD(a nt.MKNOD3args) (r nt.MKNOD3res) {
	h.setArg(a)
	h.rec("NFSPROC3_MKNOD", a.Where.Dir.Data)
	return
}
func (h *recHandler) NFSPROC3_REMOVE(a nt.REMOVE3args) (r nt.REMOVE3res) {
	h.setArg(a)
	h.rec("NFSPROC3_REMOVE", a.Object.Dir.Data)
	return
}
func (h *recHandler) NFSPROC3_RMDIR(a nt.RMDIR3args) (r nt.RMDIR3res) {
	h.setArg(a)
	h.rec("NFSPROC3_RMDIR", a.Object.Dir.Data)
	return
}
func (h *recHandler) NFSPROC3_RENAME(a nt.RENAME3args) (r nt.RENAME3res) {
	h.setArg(a)
	h.rec("NFSPROC3_RENAME", a.From.Dir.Data)
	return
}
func (h *recHandler) NFSPROC3_LINK(a nt.LINK3args) (r nt.LINK3res) {
	h.setArg(a)
	h.rec("NFSPROC3_LINK", a.File.Data)
	return
}
func (h *recHandler) NFSPROC3_READDIR(a nt.READDIR3args) (r nt.READDIR3res) {
	h.setArg(a)
	h.rec("NFSPROC3_READDIR", a.Dir.Data)
	return
}
func (h *recHandler) NFSPROC3_READDIRPLUS(a nt.READDIRPLUS3args) (r nt.READDIRPLUS3res) {
	h.setArg(a)
	h.rec("NFSPROC3_READDIRPLUS", a.Dir.Data)
	return
}
func (h *recHandler) NFSPROC3_FSSTAT(a nt.FSSTAT3args) (r nt.FSSTAT3res) {
	h.setArg(a)
	h.rec("NFSPROC3_FSSTAT", a.Fsroot.Data)
	return
}
func (h *recHandler) NFSPROC3_FSINFO(a nt.FSINFO3args) (r nt.FSINFO3res) {
	h.setArg(a)
	h.rec("NFSPROC3_FSINFO", a.Fsroot.Data)
	return
}
func (h *recHandler) NFSPROC3_PATHCONF(a nt.PATHCONF3args) (r nt.PATHCONF3res) {
	h.setArg(a)
	h.rec("NFSPROC3_PATHCONF", a.Object.Data)
	return
}
func (h *recHandler) NFSPROC3_COMMIT(a nt.COMMIT3args) (r nt.COMMIT3res) {
	h.setArg(a)
	h.rec("NFSPROC3_COMMIT", a.File.Data)
	return
}
func (h *recHandler) MOUNTPROC3_NULL() { h.rec("MOUNTPROC3_NULL", nil) }
func (h *recHandler) MOUNTPROC3_MNT(a nt.Dirpath3) (r nt.Mountres3) {
	h.setArg(a)
	h.rec("MOUNTPROC3_MNT", []byte(a))
	return
}
func (h *recHandler) MOUNTPROC3_DUMP() (r nt.Mountopt3) { h.rec("MOUNTPROC3_DUMP", nil); return }
func (h *recHandler) MOUNTPROC3_UMNT(a nt.Dirpath3)     { h.rec("MOUNTPROC3_UMNT", []byte(a)) }
func (h *recHandler) MOUNTPROC3_UMNTALL()               { h.rec("MOUNTPROC3_UMNTALL", nil) }
func (h *recHandler) MOUNTPROC3_EXPORT() (r nt.Exportsopt3) {
	h.rec("MOUNTPROC3_EXPORT", nil)
	return
}

// RFC 1813 procedure table (section 3.3 and appendix I), written down
// independently of the repository's generated tables.
type procEnt struct {
	name string
	arg  func(fh []byte) xdr.Xdrable
	res  func() xdr.Xdrable
}

func rfcFh(b []byte) rfc.Nfs_fh3 { return rfc.Nfs_fh3{Data: b} }

var nfsProcs = []procEnt{
	0:  {"NFSPROC3_NULL", func([]byte) xdr.Xdrable { return new(xdr.Void) }, func() xdr.Xdrable { return new(xdr.Void) }},
	1:  {"NFSPROC3_GETATTR", func(f []byte) xdr.Xdrable { return &rfc.GETATTR3args{Object: rfcFh(f)} }, func() xdr.Xdrable { return new(rfc.GETATTR3res) }},
	2:  {"NFSPROC3_SETATTR", func(f []byte) xdr.Xdrable { return &rfc.SETATTR3args{Object: rfcFh(f)} }, func() xdr.Xdrable { return new(rfc.SETATTR3res) }},
	3:  {"NFSPROC3_LOOKUP", func(f []byte) xdr.Xdrable { return &rfc.LOOKUP3args{What: rfc.Diropargs3{Dir: rfcFh(f), Name: "n"}} }, func() xdr.Xdrable { return new(rfc.LOOKUP3res) }},
	4:  {"NFSPROC3_ACCESS", func(f []byte) xdr.Xdrable { return &rfc.ACCESS3args{Object: rfcFh(f)} }, func() xdr.Xdrable { return new(rfc.ACCESS3res) }},
	5:  {"NFSPROC3_READLINK", func(f []byte) xdr.Xdrable { return &rfc.READLINK3args{Symlink: rfcFh(f)} }, func() xdr.Xdrable { return new(rfc.READLINK3res) }},
	6:  {"NFSPROC3_READ", func(f []byte) xdr.Xdrable { return &rfc.READ3args{File: rfcFh(f)} }, func() xdr.Xdrable { return new(rfc.READ3res) }},
	7:  {"NFSPROC3_WRITE", func(f []byte) xdr.Xdrable { return &rfc.WRITE3args{File: rfcFh(f)} }, func() xdr.Xdrable { return new(rfc.WRITE3res) }},
	8:  {"NFSPROC3_CREATE", func(f []byte) xdr.Xdrable { return &rfc.CREATE3args{Where: rfc.Diropargs3{Dir: rfcFh(f), Name: "n"}} }, func() xdr.Xdrable { return new(rfc.CREATE3res) }},
	9:  {"NFSPROC3_MKDIR", func(f []byte) xdr.Xdrable { return &rfc.MKDIR3args{Where: rfc.Diropargs3{Dir: rfcFh(f), Name: "n"}} }, func() xdr.Xdrable { return new(rfc.MKDIR3res) }},
	10: {"NFSPROC3_SYMLINK", func(f []byte) xdr.Xdrable { return &rfc.SYMLINK3args{Where: rfc.Diropargs3{Dir: rfcFh(f), Name: "n"}} }, func() xdr.Xdrable { return new(rfc.SYMLINK3res) }},
	11: {"NFSPROC3_MKNOD", func(f []byte) xdr.Xdrable { return &rfc.MKNOD3args{Where: rfc.Diropargs3{Dir: rfcFh(f), Name: "n"}, What: rfc.Mknoddata3{Ftype: rfc.NF3FIFO}} }, func() xdr.Xdrable { return new(rfc.MKNOD3res) }},
	12: {"NFSPROC3_REMOVE", func(f []byte) xdr.Xdrable { return &rfc.REMOVE3args{Object: rfc.Diropargs3{Dir: rfcFh(f), Name: "n"}} }, func() xdr.Xdrable { return new(rfc.REMOVE3res) }},
	13: {"NFSPROC3_RMDIR", func(f []byte) xdr.Xdrable { return &rfc.RMDIR3args{Object: rfc.Diropargs3{Dir: rfcFh(f), Name: "n"}} }, func() xdr.Xdrable { return new(rfc.RMDIR3res) }},
	14: {"NFSPROC3_RENAME", func(f []byte) xdr.Xdrable { return &rfc.RENAME3args{From: rfc.Diropargs3{Dir: rfcFh(f), Name: "a"}, To: rfc.Diropargs3{Dir: rfcFh([]byte{0}), Name: "b"}} }, func() xdr.Xdrable { return new(rfc.RENAME3res) }},
	15: {"NFSPROC3_LINK", func(f []byte) xdr.Xdrable { return &rfc.LINK3args{File: rfcFh(f), Link: rfc.Diropargs3{Dir: rfcFh([]byte{0}), Name: "l"}} }, func() xdr.Xdrable { return new(rfc.LINK3res) }},
	16: {"NFSPROC3_READDIR", func(f []byte) xdr.Xdrable { return &rfc.READDIR3args{Dir: rfcFh(f)} }, func() xdr.Xdrable { return new(rfc.READDIR3res) }},
	17: {"NFSPROC3_READDIRPLUS", func(f []byte) xdr.Xdrable { return &rfc.READDIRPLUS3args{Dir: rfcFh(f)} }, func() xdr.Xdrable { return new(rfc.READDIRPLUS3res) }},
	18: {"NFSPROC3_FSSTAT", func(f []byte) xdr.Xdrable { return &rfc.FSSTAT3args{Fsroot: rfcFh(f)} }, func() xdr.Xdrable { return new(rfc.FSSTAT3res) }},
	19: {"NFSPROC3_FSINFO", func(f []byte) xdr.Xdrable { return &rfc.FSINFO3args{Fsroot: rfcFh(f)} }, func() xdr.Xdrable { return new(rfc.FSINFO3res) }},
	20: {"NFSPROC3_PATHCONF", func(f []byte) xdr.Xdrable { return &rfc.PATHCONF3args{Object: rfcFh(f)} }, func() xdr.Xdrable { return new(rfc.PATHCONF3res) }},
	21: {"NFSPROC3_COMMIT", func(f []byte) xdr.Xdrable { return &rfc.COMMIT3args{File: rfcFh(f)} }, func() xdr.Xdrable { return new(rfc.COMMIT3res) }},
}

var mountProcs = []procEnt{
	0: {"MOUNTPROC3_NULL", func([]byte) xdr.Xdrable { return new(xdr.Void) }, func() xdr.Xdrable { return new(xdr.Void) }},
	1: {"MOUNTPROC3_MNT", func(f []byte) xdr.Xdrable { d := rfc.Dirpath3(f); return &d }, func() xdr.Xdrable { return new(rfc.Mountres3) }},
	2: {"MOUNTPROC3_DUMP", func([]byte) xdr.Xdrable { return new(xdr.Void) }, func() xdr.Xdrable { return new(rfc.Mountopt3) }},
	3: {"MOUNTPROC3_UMNT", func(f []byte) xdr.Xdrable { d := rfc.Dirpath3(f); return &d }, func() xdr.Xdrable { return new(xdr.Void) }},
	4: {"MOUNTPROC3_UMNTALL", func([]byte) xdr.Xdrable { return new(xdr.Void) }, func() xdr.Xdrable { return new(xdr.Void) }},
	5: {"MOUNTPROC3_EXPORT", func([]byte) xdr.Xdrable { return new(xdr.Void) }, func() xdr.Xdrable { return new(rfc.Exportsopt3) }},
}

func checkDispatch(viol func(string, ...interface{})) int {
	h := &recHandler{}
	srv := rfc1057.MakeServer()
	// registered exactly as cmd/go-nfsd/main.go does
	srv.RegisterMany(nt.MOUNT_PROGRAM_MOUNT_V3_regs(h))
	srv.RegisterMany(nt.NFS_PROGRAM_NFS_V3_regs(h))
	n := 0
	try := func(prog, vers uint32, tbl []procEnt, extra []uint32) {
		a, b := net.Pipe()
		defer a.Close()
		defer b.Close()
		go srv.Run(b)
		c := rfc1057.MakeClient(a, prog, vers)
		var cred rfc1057.Opaque_auth
		cred.Flavor = rfc1057.AUTH_NONE
		for num, pe := range tbl {
			mark := []byte{byte(0xA0 + num), 'p', byte(num), 0x5a, byte(prog)}
			h.rec("", nil)
			err := c.Call(uint32(num), cred, cred, pe.arg(mark), pe.res())
			n++
			h.mu.Lock()
			got, gfh := h.last, h.fh
			h.mu.Unlock()
			if err != nil {
				viol("program %d procedure %d (%s): call fails: %v", prog, num, pe.name, err)
				continue
			}
			if got != pe.name {
				viol("program %d procedure number %d must reach %s, it reached %q", prog, num, pe.name, got)
			}
			if gfh != nil && !bytes.Equal(gfh, mark) {
				viol("program %d procedure %d (%s): the handler received handle/path %x, sent %x", prog, num, pe.name, gfh, mark)
			}
		}
		if len(tbl) > 7 && tbl[7].name == "NFSPROC3_WRITE" {
			// well-formed WRITE arguments whose count disagrees with the data
			// supplied must reach the handler like any other (it answers them)
			for _, wa := range []*rfc.WRITE3args{
				{File: rfcFh([]byte{1, 2, 3}), Count: 8192, Data: make([]byte, 4096)},
				{File: rfcFh([]byte{1, 2, 3}), Count: 0, Data: make([]byte, 100)},
				{File: rfcFh([]byte{1, 2, 3}), Count: ^rfc.Count3(0), Offset: ^rfc.Offset3(0)},
				{File: rfcFh([]byte{1, 2, 3}), Count: 5, Data: make([]byte, 4)},
			} {
				h.rec("", nil)
				err := c.Call(7, cred, cred, wa, new(rfc.WRITE3res))
				n++
				h.mu.Lock()
				got := h.last
				h.mu.Unlock()
				if err != nil || got != "NFSPROC3_WRITE" {
					viol("WRITE with count %d and %d data bytes: call error %v, reached %q (it must reach NFSPROC3_WRITE)", wa.Count, len(wa.Data), err, got)
				}
			}
		}
		for _, num := range extra {
			h.rec("", nil)
			err := c.Call(num, cred, cred, new(xdr.Void), new(xdr.Void))
			n++
			h.mu.Lock()
			got := h.last
			h.mu.Unlock()
			if err == nil || got != "" {
				viol("program %d: unknown procedure number %d is not refused (err %v, handler %q)", prog, num, err, got)
			}
		}
	}
	try(100003, 3, nfsProcs, []uint32{22, 23, 100, 0xffffffff})
	try(100005, 3, mountProcs, []uint32{6, 7, 99})
	// truncated argument bytes handed to the registered handler wrappers: the
	// wrapper must report the decoding error and must not run the procedure
	fhb := []byte{1, 2, 3, 4, 5, 6, 7, 8, 9, 10, 11, 12, 13, 14, 15, 16}
	wrap := func(regs []xdr.ProcRegistration, tbl []procEnt) {
		for _, reg := range regs {
			if int(reg.Proc) >= len(tbl) {
				continue
			}
			pe := tbl[reg.Proc]
			full, err := encodeSafe(pe.arg(fhb))
			if err != nil || len(full) == 0 {
				continue
			}
			for cut := 0; cut < len(full); cut++ {
				h.rec("", nil)
				var herr error
				func() {
					defer func() {
						if e := recover(); e != nil {
							herr = fmt.Errorf("panic: %v", e)
						}
					}()
					_, herr = reg.Handler(xdr.MakeReader(append([]byte{}, full[:cut]...)))
				}()
				n++
				h.mu.Lock()
				got := h.last
				h.mu.Unlock()
				if herr == nil || got != "" {
					viol("program %d procedure %d (%s): arguments cut to %d of %d bytes are not rejected (error %v, handler run: %q)", reg.Prog, reg.Proc, pe.name, cut, len(full), herr, got)
					break
				}
			}
		}
	}
	wrap(nt.NFS_PROGRAM_NFS_V3_regs(h), nfsProcs)
	wrap(nt.MOUNT_PROGRAM_MOUNT_V3_regs(h), mountProcs)
	// sequences of different argument values for one procedure: the handler
	// must be called with exactly the decoding of *this* message - nothing of an
	// earlier call (other union arm, optional field, longer list) may show
	ntArg := map[uint32]func() xdr.Xdrable{
		1: func() xdr.Xdrable { return new(nt.GETATTR3args) }, 2: func() xdr.Xdrable { return new(nt.SETATTR3args) }, 3: func() xdr.Xdrable { return new(nt.LOOKUP3args) },
		4: func() xdr.Xdrable { return new(nt.ACCESS3args) }, 5: func() xdr.Xdrable { return new(nt.READLINK3args) }, 6: func() xdr.Xdrable { return new(nt.READ3args) },
		7: func() xdr.Xdrable { return new(nt.WRITE3args) }, 8: func() xdr.Xdrable { return new(nt.CREATE3args) }, 9: func() xdr.Xdrable { return new(nt.MKDIR3args) },
		10: func() xdr.Xdrable { return new(nt.SYMLINK3args) }, 11: func() xdr.Xdrable { return new(nt.MKNOD3args) }, 12: func() xdr.Xdrable { return new(nt.REMOVE3args) },
		13: func() xdr.Xdrable { return new(nt.RMDIR3args) }, 14: func() xdr.Xdrable { return new(nt.RENAME3args) }, 15: func() xdr.Xdrable { return new(nt.LINK3args) },
		16: func() xdr.Xdrable { return new(nt.READDIR3args) }, 17: func() xdr.Xdrable { return new(nt.READDIRPLUS3args) }, 18: func() xdr.Xdrable { return new(nt.FSSTAT3args) },
		19: func() xdr.Xdrable { return new(nt.FSINFO3args) }, 20: func() xdr.Xdrable { return new(nt.PATHCONF3args) }, 21: func() xdr.Xdrable { return new(nt.COMMIT3args) },
	}
	rng := NewRng(0x5eed16)
	for _, reg := range nt.NFS_PROGRAM_NFS_V3_regs(h) {
		mk := ntArg[reg.Proc]
		if mk == nil {
			continue
		}
		for k := 0; k < 12; k++ {
			v := mk()
			fillRandom(reflect.ValueOf(v).Elem(), rng, 0)
			b, err := encodeSafe(v)
			if err != nil {
				continue
			}
			fresh := mk()
			if _, err := decodeSafe(b, fresh); err != nil {
				continue
			}
			h.setArg(nil)
			var herr error
			func() {
				defer func() {
					if e := recover(); e != nil {
						herr = fmt.Errorf("panic: %v", e)
					}
				}()
				_, herr = reg.Handler(xdr.MakeReader(append([]byte{}, b...)))
			}()
			n++
			h.mu.Lock()
			got := h.arg
			h.mu.Unlock()
			if herr != nil {
				viol("procedure %d: well-formed arguments (%d bytes) are refused by the registered wrapper: %v", reg.Proc, len(b), herr)
				break
			}
			want := reflect.ValueOf(fresh).Elem().Interface()
			if got == nil || !reflect.DeepEqual(got, want) {
				viol("procedure %d, call #%d of a sequence: the handler was called with %+v, the message decodes to %+v (state of an earlier call shows through)", reg.Proc, k+1, got, want)
				break
			}
		}
	}
	// the same procedure decoded by several connections at once: every call
	// must get its own argument
	hc := &recHandler{conc: true}
	for _, reg := range nt.NFS_PROGRAM_NFS_V3_regs(hc) {
		if reg.Proc != 7 {
			continue
		}
		var wg sync.WaitGroup
		for g := 1; g <= 4; g++ {
			wg.Add(1)
			go func(g int, handler func(*xdr.XdrState) (xdr.Xdrable, error)) {
				defer wg.Done()
				defer func() { recover() }()
				a := &nt.WRITE3args{File: nt.Nfs_fh3{Data: bytes.Repeat([]byte{byte(g)}, 16)}, Count: nt.Count3(g), Data: bytes.Repeat([]byte{byte(g)}, 3000)}
				b, err := encodeSafe(a)
				if err != nil {
					return
				}
				for i := 0; i < 400; i++ {
					handler(xdr.MakeReader(append([]byte{}, b...)))
				}
			}(g, reg.Handler)
		}
		wg.Wait()
		n += 1600
		if hc.mixed > 0 {
			viol("WRITE decoded by four connections at once: %d of 1600 calls reached the handler with an argument mixed from two requests (handle of one, data/count of another)", hc.mixed)
		}
	}
	return n
}
