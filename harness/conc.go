package main

// Concurrent engine (C03, feeds C04/C05/C06/C14): many short histories of
// conflicting RPCs from several clients, recorded at the client boundary and
// checked for linearizability against the reference model with porcupine.
// The lock monitor watches every acquisition and widens schedules by seeded
// yields at lock/commit points.

import (
	"bytes"
	"fmt"
	"io"
	"os"
	"runtime"
	"sort"
	"strings"
	"sync"
	"sync/atomic"
	"time"

	"github.com/anishathalye/porcupine"
)

type ConcCfg struct {
	Name     string
	Hist     int // number of histories
	Clients  int
	OpsPer   int
	BigFile  bool
	Unstable bool
	RPC      bool
	Yield    bool
	LowChild bool // children with inode numbers below their directory's
	NoCheck  bool // skip porcupine (race detector runs)
	BigBias  bool // many truncations/removals of the big file (frees in flight)
	FileFocus bool // all clients hammer one file (SETATTR/WRITE/GETATTR/READ)
	HalfFreed bool // start from a server that was stopped in the middle of a big free: the first allocations are handed a half-freed inode
	AbortHammer bool // C14: many failing (aborting) requests next to lookups/creates on the same directory; dead handles next to allocations
	Evict    bool // one client walks over > 100 cold inodes (the inode cache holds 100) while the others work on a few files and one directory
	DirMoves bool // directories are moved between parents concurrently (cycles, '..' of the moved directory)
	WideRoot bool // the root holds > 32 entries (two directory blocks); whole listings of it race with removals/creations at both ends of it
	Focus    bool // namespace races on two names in one directory whose children have smaller numbers
	Procs    int
}

type ConcRes struct {
	Viol        []Violation
	Histories   int
	Ops         int
	Fingerprints map[string]bool
	Contended   uint64
	Aborts      uint64
	ShrinkInWindow int
	NonTrivial  int
	Unknown     int // porcupine timeouts
	Inconclusive []string
	Sample      []string
	Acquires    uint64
	Multi       uint64
	MaxRetry    int
	EdgeClasses Counter
	Stats       Counter
}

type histOp struct {
	Client int
	Op     *Op
	Res    *Res
	Call   int64
	Ret    int64
	Kind   string // "op" | "attr" | "final"
	Dump   string // final
	Attr   Ent    // attr sub-op of READDIRPLUS: child attributes read under the child's own lock
}

type linState struct {
	m   *Model
	key string
}

func (s *linState) Key() string {
	if s.key == "" {
		var sb strings.Builder
		for _, e := range s.m.DumpEnts() {
			fmt.Fprintf(&sb, "%s|%x|%d|%v%v|%v%v\n", e.line(), e.FH, e.Fileid, s.m.Obj(e.FH) != nil && s.m.Obj(e.FH).AtimeC, e.Atime, s.m.Obj(e.FH) != nil && s.m.Obj(e.FH).MtimeC, e.Mtime)
		}
		for _, d := range s.m.DeadFHs() {
			fmt.Fprintf(&sb, "dead %x\n", d)
		}
		s.key = sb.String()
	}
	return s.key
}

// concModel is the porcupine model over the reference file system.
func concModel(init *Model) porcupine.Model {
	return porcupine.Model{
		Init: func() interface{} { return &linState{m: init} },
		Step: func(st, in, out interface{}) (bool, interface{}) {
			s := st.(*linState)
			h := in.(*histOp)
			switch h.Kind {
			case "final":
				return s.m.Dump() == h.Dump, s
			case "attr":
				// attributes of one READDIRPLUS child
				o := s.m.Obj(h.Attr.FH)
				if o == nil {
					return false, s
				}
				ok := int(h.Attr.Ftype) == o.Kind && (o.Kind == KDir || h.Attr.Size == o.Size) && (o.Fileid == 0 || h.Attr.AFileid == o.Fileid)
				return ok, s
			}
			n := s.m.Clone()
			op := *h.Op
			res := *h.Res
			if op.K == OpReaddirplus {
				// child attributes are checked by the "attr" sub-operations
				ents := make([]Ent, len(res.Ents))
				copy(ents, res.Ents)
				for i := range ents {
					ents[i].HasAttr = false
				}
				res.Ents = ents
			}
			d := n.Apply(&op, &res)
			if d.Bad() {
				return false, s
			}
			if (op.K == OpReaddir || op.K == OpReaddirplus) && res.Stat == stOK {
				// complete listing (large limits): the names must be exactly
				// the directory's
				if o := n.Obj(op.H); o != nil && o.Kind == KDir {
					cnt := 0
					for _, e := range res.Ents {
						if e.Name != "." && e.Name != ".." {
							cnt++
						}
					}
					if cnt != len(o.Ents) || !res.Eof {
						return false, s
					}
				}
			}
			return true, &linState{m: n}
		},
		Equal: func(a, b interface{}) bool { return a.(*linState).Key() == b.(*linState).Key() },
		DescribeOperation: func(in, out interface{}) string {
			h := in.(*histOp)
			if h.Kind == "final" {
				return "FINAL-DUMP"
			}
			if h.Kind == "attr" {
				return fmt.Sprintf("child-attr %x size=%d", h.Attr.FH, h.Attr.Size)
			}
			return fmt.Sprintf("%s => %d", h.Op, h.Res.Stat)
		},
	}
}

type world struct {
	frontier int64 // number of creations so far in the abort-hammer histories
	dead   [][]byte
	dirs   [][]byte
	files  [][]byte
	big    []byte
	names  []string
	mnames []string
	bigs   [][]byte // several big files (C14: overlapping background frees)
	tdirs  [][]byte // DirMoves: root followed by the directories t0..t3
	first  [][]*Op  // per client: requests issued before the generated ones
}

var concClock int64

func tick() int64 { return atomic.AddInt64(&concClock, 1) }

// genConcOp draws an operation aimed at conflicts.
func genConcOp(r *Rng, w *world, mine *[][]byte, uid *uint64, cfg ConcCfg) *Op {
	dir := func() []byte { return w.dirs[r.Intn(len(w.dirs))] }
	name := func() string { return w.names[r.Intn(len(w.names))] }
	file := func() []byte {
		if len(*mine) > 0 && r.Intn(3) == 0 {
			return (*mine)[r.Intn(len(*mine))]
		}
		return w.files[r.Intn(len(w.files))]
	}
	if cfg.AbortHammer {
		d := w.dirs[len(w.dirs)-1]
		switch x := r.Intn(100); {
		case x < 30: // fails after the name cache was already edited (abort with changes)
			return &Op{K: OpRename, H: d, Name: w.names[r.Intn(2)], H2: d, Name2: longName(200, 'x')}
		case x < 50:
			return &Op{K: OpLookup, H: d, Name: w.names[r.Intn(2)]}
		case x < 60:
			return &Op{K: OpCreate, H: d, Name: w.names[r.Intn(2)]}
		case x < 65:
			return &Op{K: OpRemove, H: d, Name: w.names[r.Intn(2)]}
		case x < 85 && len(w.dead) > 0:
			// a dead handle whose number is being handed out again right now
			// (the allocator hands out the freed numbers in ascending order)
			i := int(atomic.LoadInt64(&w.frontier)) + r.Intn(3)
			return &Op{K: OpGetattr, H: w.dead[i%len(w.dead)]}
		default:
			*uid++
			atomic.AddInt64(&w.frontier, 1)
			return &Op{K: OpCreate, H: w.dirs[0], Name: fmt.Sprintf("n%d", *uid)}
		}
	}
	if cfg.Evict {
		d := w.dirs[len(w.dirs)-1]
		f := w.files[r.Intn(len(w.files))]
		switch x := r.Intn(100); {
		case x < 20: // fails after it has edited the cached directory
			return &Op{K: OpRename, H: d, Name: w.names[r.Intn(2)], H2: d, Name2: longName(200, 'x')}
		case x < 35:
			return &Op{K: OpCreate, H: d, Name: w.names[r.Intn(2)]}
		case x < 45:
			return &Op{K: OpLookup, H: d, Name: w.names[r.Intn(2)]}
		case x < 60:
			return &Op{K: OpGetattr, H: f}
		case x < 75:
			*uid++
			return &Op{K: OpWrite, H: f, Off: r.Pick([]uint64{0, 100, 4096}), Count: 100, DataLen: 100, Uid: *uid, Stable: r.Intn(3)}
		case x < 85:
			return &Op{K: OpSetattr, H: f, SetSize: true, Size: r.Pick([]uint64{0, 100, 5000})}
		case x < 92:
			return &Op{K: OpRemove, H: d, Name: w.names[r.Intn(2)]}
		default:
			return &Op{K: OpRead, H: f, Off: 0, Count: 8192}
		}
	}
	if cfg.DirMoves {
		any := func() []byte { return w.tdirs[r.Intn(len(w.tdirs))] }
		td := func() []byte { return w.tdirs[1+r.Intn(len(w.tdirs)-1)] }
		tn := func() string { return fmt.Sprintf("t%d", r.Intn(len(w.tdirs)-1)) }
		switch x := r.Intn(100); {
		case x < 55:
			// wherever the directory is now: most requests fail with NOENT,
			// those that name its current parent move it
			n := tn()
			return &Op{K: OpRename, H: any(), Name: n, H2: any(), Name2: n}
		case x < 70:
			return &Op{K: OpLookup, H: td(), Name: ".."}
		case x < 78:
			return &Op{K: OpLookup, H: any(), Name: tn()}
		case x < 84:
			return &Op{K: OpMkdir, H: td(), Name: "m1"}
		case x < 90:
			return &Op{K: OpRename, H: td(), Name: "m1", H2: any(), Name2: "m1"}
		case x < 94:
			return &Op{K: OpRmdir, H: any(), Name: r.PickS([]string{"m1", tn()})}
		default:
			return &Op{K: OpReaddirplus, H: any(), Count: 1 << 20, Dircount: 1 << 20}
		}
	}
	if cfg.WideRoot {
		root := w.dirs[0]
		wn := func() string {
			// both ends of the listing: the first and the last block of the directory
			if r.Intn(2) == 0 {
				return fmt.Sprintf("w%02d", r.Intn(6))
			}
			return fmt.Sprintf("w%02d", 34+r.Intn(6))
		}
		switch x := r.Intn(100); {
		case x < 30:
			return &Op{K: OpReaddirplus, H: root, Count: 1 << 20, Dircount: 1 << 20}
		case x < 40:
			return &Op{K: OpReaddir, H: root, Count: 1 << 20}
		case x < 75:
			return &Op{K: OpRemove, H: root, Name: wn()}
		case x < 88:
			return &Op{K: OpCreate, H: root, Name: wn()}
		case x < 94:
			return &Op{K: OpRename, H: root, Name: wn(), H2: root, Name2: wn()}
		default:
			return &Op{K: OpLookup, H: root, Name: wn()}
		}
	}
	if cfg.FileFocus {
		f := w.files[0]
		switch x := r.Intn(100); {
		case x < 45:
			return &Op{K: OpSetattr, H: f, SetSize: true, Size: uint64(1 + r.Intn(40000))}
		case x < 75:
			*uid++
			n := r.PickU32([]uint32{10, 4096, 5000})
			return &Op{K: OpWrite, H: f, Off: r.Pick([]uint64{0, 100, 4096, 8192, 30000}), Count: n, DataLen: n, Uid: *uid, Stable: r.Intn(3)}
		case x < 88:
			return &Op{K: OpGetattr, H: f}
		default:
			return &Op{K: OpRead, H: f, Off: 0, Count: 65536}
		}
	}
	if cfg.HalfFreed && r.Intn(2) == 0 {
		// many creations of few names: they are handed the half-freed inode
		k := []OpKind{OpCreate, OpCreate, OpMkdir, OpSymlink}[r.Intn(4)]
		n := w.names[r.Intn(2)]
		if k == OpMkdir {
			n = w.mnames[r.Intn(len(w.mnames))] // directories keep to their own names (open known finding)
		}
		return &Op{K: k, H: w.dirs[r.Intn(len(w.dirs))], Name: n, Target: "t"}
	}
	if cfg.Focus {
		d := w.dirs[len(w.dirs)-1]
		if r.Intn(6) == 0 {
			d = dir()
		}
		nm := func() string { return w.names[r.Intn(2)] }
		switch x := r.Intn(100); {
		case x < 25:
			return &Op{K: OpRemove, H: d, Name: nm()}
		case x < 50:
			return &Op{K: OpRename, H: d, Name: nm(), H2: d, Name2: w.names[r.Intn(len(w.names))]}
		case x < 70:
			return &Op{K: OpCreate, H: d, Name: nm()}
		case x < 85:
			return &Op{K: OpLookup, H: d, Name: nm()}
		case x < 92:
			return &Op{K: OpRename, H: w.dirs[0], Name: nm(), H2: d, Name2: nm()}
		default:
			return &Op{K: OpReaddirplus, H: d, Count: 1 << 20, Dircount: 1 << 20}
		}
	}
	if cfg.BigBias && len(w.bigs) > 0 && r.Intn(2) == 0 {
		// several big files freed by different clients: background frees start
		// and finish next to each other
		k := r.Intn(len(w.bigs))
		switch r.Intn(3) {
		case 0:
			return &Op{K: OpRemove, H: w.dirs[0], Name: fmt.Sprintf("big%d", k)}
		case 1:
			return &Op{K: OpSetattr, H: w.bigs[k], SetSize: true, Size: r.Pick([]uint64{0, 5000, 20 * BlockSize})}
		default:
			*uid++
			return &Op{K: OpWrite, H: w.bigs[k], Off: r.Pick([]uint64{0, 100 * BlockSize, 550 * BlockSize}), Count: 4096, DataLen: 4096, Uid: *uid, Stable: r.Intn(3)}
		}
	}
	if cfg.BigBias && w.big != nil && r.Intn(4) == 0 {
		switch r.Intn(4) {
		case 0:
			return &Op{K: OpRemove, H: w.dirs[0], Name: "big"}
		case 1:
			*uid++
			if r.Intn(3) == 0 {
				// across the end that a truncation to 5000 bytes leaves, then read
				return &Op{K: OpWrite, H: w.big, Off: 4096 + uint64(r.Intn(800)), Count: 3000, DataLen: 3000, Uid: *uid, Stable: r.Intn(3)}
			}
			if r.Intn(4) == 0 {
				return &Op{K: OpRead, H: w.big, Off: 0, Count: 32768}
			}
			return &Op{K: OpWrite, H: w.big, Off: r.Pick([]uint64{0, 100 * BlockSize, 550 * BlockSize}), Count: 4096, DataLen: 4096, Uid: *uid, Stable: r.Intn(3)}
		default:
			return &Op{K: OpSetattr, H: w.big, SetSize: true, Size: r.Pick([]uint64{0, 5000, 20 * BlockSize, 300 * BlockSize, 590 * BlockSize})}
		}
	}
	switch x := r.Intn(100); {
	case x < 14:
		return &Op{K: OpCreate, H: dir(), Name: name(), Mode: r.Intn(2)}
	case x < 26:
		return &Op{K: OpRemove, H: dir(), Name: name()}
	case x < 44:
		d1 := dir()
		d2 := d1
		if r.Intn(2) == 0 {
			d2 = dir()
		}
		if r.Intn(6) == 0 {
			// refused after the source name has already been taken out of the
			// cached directory (the new name is too long)
			return &Op{K: OpRename, H: d1, Name: name(), H2: d2, Name2: longName(200, 'x')}
		}
		return &Op{K: OpRename, H: d1, Name: name(), H2: d2, Name2: name()}
	case x < 52:
		return &Op{K: OpLookup, H: dir(), Name: name()}
	case x < 56:
		return &Op{K: OpLookup, H: dir(), Name: r.PickS([]string{".", ".."})}
	case x < 60:
		return &Op{K: OpMkdir, H: dir(), Name: w.mnames[r.Intn(len(w.mnames))]}
	case x < 63:
		return &Op{K: OpRmdir, H: dir(), Name: w.mnames[r.Intn(len(w.mnames))]}
	case x < 65:
		d := dir()
		return &Op{K: OpRename, H: d, Name: w.mnames[r.Intn(len(w.mnames))], H2: d, Name2: w.mnames[r.Intn(len(w.mnames))]}
	case x < 68:
		return &Op{K: OpSymlink, H: dir(), Name: name(), Target: "tgt"}
	case x < 74:
		k := OpReaddirplus
		if r.Intn(3) == 0 {
			k = OpReaddir
		}
		return &Op{K: k, H: dir(), Count: 1 << 20, Dircount: 1 << 20}
	case x < 84:
		*uid++
		n := r.PickU32([]uint32{10, 4096, 5000})
		return &Op{K: OpWrite, H: file(), Off: r.Pick([]uint64{0, 100, 4096, 8192}), Count: n, DataLen: n, Uid: *uid, Stable: r.Intn(3)}
	case x < 90:
		return &Op{K: OpSetattr, H: file(), SetSize: true, Size: r.Pick([]uint64{0, 100, 4096, 5000, 9000, 20000})}
	case x < 95:
		return &Op{K: OpRead, H: file(), Off: r.Pick([]uint64{0, 4000}), Count: 16384}
	case x < 97:
		return &Op{K: OpGetattr, H: file()}
	default:
		if w.big != nil {
			if r.Intn(2) == 0 {
				return &Op{K: OpSetattr, H: w.big, SetSize: true, Size: r.Pick([]uint64{0, 5000, 300 * BlockSize})}
			}
			return &Op{K: OpRemove, H: w.dirs[0], Name: "big"}
		}
		return &Op{K: OpCommit, H: file()}
	}
}

var concMu sync.Mutex
var concPartial *ConcRes

// runConc runs cfg.Hist histories; each on a fresh server.
func runConc(cfg ConcCfg, seed uint64, cas int) *ConcRes {
	res := &ConcRes{Fingerprints: map[string]bool{}, EdgeClasses: Counter{}, Stats: Counter{}}
	concMu.Lock()
	concPartial = res
	concMu.Unlock()
	if cfg.Procs > 0 {
		runtime.GOMAXPROCS(cfg.Procs)
	}
	raceMode = cfg.NoCheck // set before any server exists
	deadlockHandler = func(msg string) {
		concMu.Lock()
		res.Viol = append(res.Viol, Violation{Class: "deadlock", Msg: msg + "\n" + allStacks()})
		out := concJobRes(res)
		concMu.Unlock()
		emitAndExit(out)
	}
	for h := 0; h < cfg.Hist; h++ {
		childLog("history %d/%d", h, cfg.Hist)
		runOneHistory(cfg, seed, cas, h, res)
		concMu.Lock()
		n := len(res.Viol)
		concMu.Unlock()
		if n > 0 {
			break
		}
	}
	return res
}

func allStacks() string {
	buf := make([]byte, 1<<18)
	n := runtime.Stack(buf, true)
	return string(buf[:n])
}

func runOneHistory(cfg ConcCfg, seed uint64, cas, h int, res *ConcRes) {
	rng := NewRng(mix(mix(seed, uint64(cas)), uint64(h)+31337))
	d := NewCDisk(16000)
	if cfg.Yield {
		d.SetPerturb(rng.U64() | 1)
	}
	mon.Reset(0, false)
	srv := StartSrv(d, SrvOpts{Unstable: cfg.Unstable, RPC: cfg.RPC, Timed: cfg.NoCheck && h%2 == 0})
	lim, err := limitsOf(srv.API, srv.Root)
	sres := &SeqRes{Stats: Counter{}, States: map[string]bool{}, DeadProbes: Counter{}}
	s := &Sess{p: Profile{Name: cfg.Name, Unstable: cfg.Unstable}, rng: rng, srv: srv, res: sres, inumSeen: map[uint64]int{}}
	addV := func(class, f string, a ...interface{}) {
		concMu.Lock()
		res.Viol = append(res.Viol, Violation{Class: class, Msg: fmt.Sprintf("history %d (seed %d case %d): ", h, seed, cas) + fmt.Sprintf(f, a...), Op: h})
		concMu.Unlock()
	}
	if err != nil {
		addV("lin", "%v", err)
		return
	}
	s.m = NewModel(srv.Root, lim)
	// ---- sequential setup ----------------------------------------------
	w := &world{names: []string{"a", "b", "c"}, mnames: []string{"m1", "m2"}}
	w.dirs = append(w.dirs, srv.Root)
	if cfg.HalfFreed {
		// a big file with a small inode number is removed and the server is
		// stopped before the background free has finished
		if r := s.exec(&Op{K: OpCreate, H: srv.Root, Name: "doomed"}); r.Stat == stOK {
			for k := 0; k < 20; k++ {
				s.nextUid++
				s.exec(&Op{K: OpWrite, H: r.FH, Off: uint64(k) * 64 * BlockSize, Count: 64 * BlockSize, DataLen: 64 * BlockSize, Uid: s.nextUid, Stable: 0})
			}
		}
	}
	mk := func(k OpKind, dir []byte, name string) []byte {
		r := s.exec(&Op{K: k, H: dir, Name: name, Target: "t"})
		if r.Stat != stOK {
			return nil
		}
		return r.FH
	}
	if cfg.LowChild || cfg.Focus || rng.Intn(2) == 0 {
		// files first, directories later, then move a file below a directory
		// with a larger inode number
		f1 := mk(OpCreate, srv.Root, "a")
		f2 := mk(OpCreate, srv.Root, "f2")
		d1 := mk(OpMkdir, srv.Root, "d1")
		d2 := mk(OpMkdir, srv.Root, "d2")
		if f1 == nil || f2 == nil || d1 == nil || d2 == nil {
			addV("lin", "setup failed")
			return
		}
		s.exec(&Op{K: OpRename, H: srv.Root, Name: "a", H2: d1, Name2: "a"})
		s.exec(&Op{K: OpRename, H: srv.Root, Name: "f2", H2: d2, Name2: "b"})
		w.dirs = append(w.dirs, d1, d2)
		w.files = append(w.files, f1, f2)
	} else {
		d1 := mk(OpMkdir, srv.Root, "d1")
		f1 := mk(OpCreate, d1, "a")
		f2 := mk(OpCreate, srv.Root, "b")
		if d1 == nil || f1 == nil || f2 == nil {
			addV("lin", "setup failed")
			return
		}
		w.dirs = append(w.dirs, d1)
		w.files = append(w.files, f1, f2)
	}
	if cfg.WideRoot {
		for i := 0; i < 40; i++ {
			mk(OpCreate, srv.Root, fmt.Sprintf("w%02d", i))
		}
	}
	if cfg.DirMoves {
		w.tdirs = [][]byte{srv.Root}
		crossing := h%2 == 0
		nd := 4
		if crossing {
			nd = 6 // /t0/t2/t4 and /t1/t3/t5
		}
		for i := 0; i < nd; i++ {
			par := srv.Root
			if crossing && i >= 2 {
				par = w.tdirs[i-1]
			} else if !crossing && i > 0 && rng.Intn(2) == 0 {
				par = w.tdirs[1+rng.Intn(i)]
			}
			t := mk(OpMkdir, par, fmt.Sprintf("t%d", i))
			if t == nil {
				addV("lin", "setup failed")
				return
			}
			w.tdirs = append(w.tdirs, t)
		}
		if crossing {
			// two renames that lock disjoint inodes and each pass the ancestor
			// check on their own, but together would close a cycle:
			// t2 -> below t5 (a descendant of t3) while t3 -> below t4 (a
			// descendant of t2)
			t := w.tdirs
			w.first = [][]*Op{
				{{K: OpRename, H: t[1], Name: "t2", H2: t[6], Name2: "t2"}},
				{{K: OpRename, H: t[2], Name: "t3", H2: t[5], Name2: "t3"}},
			}
		}
	}
	if cfg.Evict {
		// more files than the inode cache holds; the caches are cold when the
		// history starts; client 0 reads the attributes of all of them
		many := mk(OpMkdir, srv.Root, "many")
		var sweep []*Op
		for i := 0; many != nil && i < 115; i++ {
			if fh := mk(OpCreate, many, fmt.Sprintf("m%03d", i)); fh != nil {
				sweep = append(sweep, &Op{K: OpGetattr, H: fh})
			}
		}
		if rng.Intn(2) == 0 {
			// in the middle of the sweep: the files the others work on
			for i, f := range w.files {
				sweep = append(sweep[:40+i], append([]*Op{{K: OpGetattr, H: f}}, sweep[40+i:]...)...)
			}
		}
		w.first = [][]*Op{sweep}
	}
	uid := uint64(1000)
	for _, f := range w.files {
		uid++
		s.exec(&Op{K: OpWrite, H: f, Off: 0, Count: 6000, DataLen: 6000, Uid: uid, Stable: 2})
	}
	if cfg.BigFile && (cfg.BigBias || rng.Intn(2) == 0) {
		w.big = mk(OpCreate, srv.Root, "big")
		for k := 0; k < 10 && w.big != nil; k++ {
			uid++
			s.exec(&Op{K: OpWrite, H: w.big, Off: uint64(k) * 60 * BlockSize, Count: 60 * BlockSize, DataLen: 60 * BlockSize, Uid: uid, Stable: 0})
		}
	}
	if cfg.BigBias && cfg.NoCheck {
		for b := 0; b < 4; b++ {
			fh := mk(OpCreate, srv.Root, fmt.Sprintf("big%d", b))
			for k := 0; k < 9 && fh != nil; k++ {
				uid++
				s.exec(&Op{K: OpWrite, H: fh, Off: uint64(k) * 64 * BlockSize, Count: 64 * BlockSize, DataLen: 64 * BlockSize, Uid: uid, Stable: 0})
			}
			if fh != nil {
				w.bigs = append(w.bigs, fh)
			}
		}
	}
	if cfg.AbortHammer {
		// freed inode numbers that a restart makes the allocator hand out again
		for i := 0; i < 60; i++ {
			if fh := mk(OpCreate, srv.Root, fmt.Sprintf("old%d", i)); fh != nil {
				w.dead = append(w.dead, fh)
			}
		}
		for i := 0; i < 60; i++ {
			s.exec(&Op{K: OpRemove, H: srv.Root, Name: fmt.Sprintf("old%d", i)})
		}
		s.restart()
		srv = s.srv
	} else if cfg.HalfFreed {
		s.exec(&Op{K: OpRemove, H: srv.Root, Name: "doomed"})
		// Crash(): the shrinker stops after its current transaction, then a
		// clean shutdown; the next server finds a half-freed inode
		s.srv.Flush()
		if s.srv.stub != nil {
			s.srv.stub.Close()
			s.srv.stub = nil
		}
		s.srv.N.Crash()
		s.srv = StartSrv(s.srv.D, s.srv.Opts)
		srv = s.srv
	} else if cfg.Evict || rng.Intn(3) == 0 {
		s.restart() // cold caches
		srv = s.srv
	}
	if len(sres.Viol) > 0 {
		for _, v := range sres.Viol {
			addV("lin", "setup: %s", v.Msg)
		}
		return
	}
	init := s.m.Clone()

	// ---- concurrent phase ----------------------------------------------
	var yseed uint64
	if cfg.Yield {
		yseed = rng.U64() | 1
	}
	mon.Reset(yseed, true)
	var hmu sync.Mutex
	var hist []*histOp
	var wg sync.WaitGroup
	done := make(chan struct{})
	nclients := cfg.Clients
	if cfg.AbortHammer && h%2 == 1 {
		// pairs: a request on a dead handle and the creation that is handed
		// exactly that inode number, started together, no injected yields
		nclients = 0
		mon.Reset(0, true)
		for i := range w.dead {
			var pw sync.WaitGroup
			pw.Add(2)
			go func() {
				defer pw.Done()
				doOp(srv.API, &Op{K: []OpKind{OpGetattr, OpRead, OpLookup, OpSetattr}[i%4], H: w.dead[i], Name: "x", Count: 10})
			}()
			go func() {
				defer pw.Done()
				doOp(srv.API, &Op{K: OpCreate, H: srv.Root, Name: fmt.Sprintf("pair%d", i)})
			}()
			pw.Wait()
		}
	}
	for c := 0; c < nclients; c++ {
		wg.Add(1)
		crng := rng.Sub(uint64(c) + 1)
		capi := srv.ClientAPI()
		go func(c int, r *Rng) {
			defer wg.Done()
			mon.SetClient(c + 1)
			var mine [][]byte
			cuid := uint64(c+1) * 100000
			nops := cfg.OpsPer
			if c < len(w.first) && len(w.first[c]) > nops {
				nops = len(w.first[c])
			}
			for i := 0; i < nops; i++ {
				op := genConcOp(r, w, &mine, &cuid, cfg)
				if c < len(w.first) && i < len(w.first[c]) {
					op = w.first[c][i]
				}
				op.Materialize()
				ho := &histOp{Client: c, Op: op, Kind: "op"}
				ho.Call = tick()
				rr := doOp(capi, op)
				ho.Ret = tick()
				ho.Res = rr
				if rr.Stat == stOK && rr.FH != nil && op.K == OpCreate {
					mine = append(mine, rr.FH)
				}
				hmu.Lock()
				hist = append(hist, ho)
				if op.K == OpReaddirplus && rr.Stat == stOK && !cfg.WideRoot {
					// (wide-root histories never change a file: the children's
					// attributes say nothing, and 40 sub-operations per listing
					// are more than the checker can take)
					for _, e := range rr.Ents {
						if e.HasAttr && e.HasFH && e.Name != "." && e.Name != ".." {
							hist = append(hist, &histOp{Client: c, Kind: "attr", Attr: e, Op: op, Res: rr, Call: ho.Call, Ret: ho.Ret})
						}
					}
				}
				hmu.Unlock()
			}
		}(c, crng)
	}
	statsStop := make(chan struct{})
	statsDone := make(chan struct{})
	if cfg.NoCheck {
		// C14: statistics are read (and reset) while requests are served
		nsrv := srv.N
		td := srv.TD
		go func() {
			defer close(statsDone)
			for k := 0; ; k++ {
				select {
				case <-statsStop:
					return
				default:
				}
				nsrv.WriteOpStats(io.Discard)
				if td != nil {
					td.WriteStats(io.Discard) // what `go-nfsd -stats` prints: disk statistics too
				}
				if k%4 == 3 {
					nsrv.ResetOpStats()
					if td != nil {
						td.ResetStats()
					}
				}
				runtime.Gosched()
			}
		}()
	} else {
		close(statsDone)
	}
	go func() { wg.Wait(); close(done) }()
	select {
	case <-done:
	case <-time.After(40 * time.Second):
		// normal histories take milliseconds.  Decide on progress, not on the
		// clock: no disk or hook event at all during further 3 s with requests
		// outstanding = no progress is possible
		p0 := atomic.LoadUint64(&progressCtr)
		time.Sleep(3 * time.Second)
		p1 := atomic.LoadUint64(&progressCtr)
		select {
		case <-done:
		default:
			if p0 == p1 && !raceMode {
				addV("hang", "requests are outstanding and no disk or lock event happened for 3 s after a 40 s wait: the server is wedged\nlock monitor: %s\n%s", mustJSON(mon.Stats()), allStacks())
			} else {
				concMu.Lock()
				res.Inconclusive = append(res.Inconclusive, fmt.Sprintf("history %d did not finish in 43 s but is still making progress", h))
				concMu.Unlock()
			}
			out := concJobRes(res)
			emitAndExit(out)
		}
	}
	close(statsStop)
	<-statsDone
	ls := mon.Stats()
	if cfg.NoCheck && h%2 == 1 {
		// C14: shut down and restart while the shrinker may still be running
		mon.Off()
		srv.Shutdown()
		srv = StartSrv(d, srv.Opts)
		mon.Reset(0, true)
	}
	// ---- final state as one read-only operation -------------------------
	got, werr := walkTree(srv.API, srv.Root, nil)
	for _, m := range werr.Msgs {
		addV("lin", "final walk: %s", m)
	}
	t := tick()
	hist = append(hist, &histOp{Client: cfg.Clients, Kind: "final", Dump: dumpString(got), Call: t, Ret: tick()})
	if cfg.Name == "C13" {
		ms, n := enumAfterHistory(srv.API, got)
		for _, m := range ms {
			addV("enum", "after the history: %s\nhistory:\n%s", m, renderHistory(hist))
		}
		concMu.Lock()
		res.Stats["directories-enumerated-page-by-page-after-a-concurrent-history"] += n
		concMu.Unlock()
	}
	if cfg.Name == "C10" && !cfg.NoCheck && len(werr.Msgs) == 0 {
		// C10 after a concurrent history: flush, restart, nothing a client can
		// observe may have changed
		srv.WaitIdle()
		srv.Flush()
		srv.Shutdown()
		srv = StartSrv(d, srv.Opts)
		got2, werr2 := walkTree(srv.API, srv.Root, nil)
		for _, m := range werr2.Msgs {
			addV("twin", "walk after a restart that followed the history: %s", m)
		}
		if a, b := dumpString(got), dumpString(got2); a != b {
			addV("twin", "the tree after a clean restart differs from the tree the running server showed after the history (- running, + restarted):\n%s\nhistory:\n%s", diffDumps(a, b), renderHistory(hist))
		} else {
			h1, h2 := handleMap(got), handleMap(got2)
			for p, fh := range h1 {
				if !bytes.Equal(fh, h2[p]) {
					addV("twin", "%s has handle %x before and %x after the restart", p, fh, h2[p])
					break
				}
			}
			concMu.Lock()
			res.Stats.Add("restart-compared-after-concurrent-history")
			concMu.Unlock()
		}
	}
	if cfg.HalfFreed {
		// a half-freed inode legitimately keeps its blocks until its number
		// is handed out again (C05): if no creation of the history succeeded
		// nobody has touched it yet.  Hand out the lowest free numbers now.
		for i := 0; i < 3; i++ {
			doOp(srv.API, &Op{K: OpCreate, H: srv.Root, Name: fmt.Sprintf("zz-reuse%d", i)})
		}
		for i := 0; i < 3; i++ {
			doOp(srv.API, &Op{K: OpRemove, H: srv.Root, Name: fmt.Sprintf("zz-reuse%d", i)})
		}
	}
	srv.WaitIdle()
	fr := srv.Fsck(FsckOpts{CheckCaches: true})
	if len(fr.Errs) > 0 {
		addV("fsck", "after the history: %s\nhistory:\n%s", joinLines(fr.Errs[:minInt(4, len(fr.Errs))]), renderHistory(hist))
	}
	if len(fr.Leaks) > 0 {
		addV("leak", "after the history: %s\nhistory:\n%s", joinLines(fr.Leaks[:minInt(4, len(fr.Leaks))]), renderHistory(hist))
	}
	if len(fr.CacheErrs) > 0 {
		addV("cache", "after the history: %s\nhistory:\n%s", joinLines(fr.CacheErrs[:minInt(4, len(fr.CacheErrs))]), renderHistory(hist))
	}
	if err := srv.TransportErr(); err != nil {
		addV("lin", "transport error: %v", err)
	}
	mon.Off()
	srv.Shutdown()

	if raceMode {
		// the lock monitor is off (it would hide races): an interleaving is
		// identified by the recorded history itself, and it is non-trivial if
		// requests of different clients overlapped in time
		ls.Fingerprint = hashStr(renderHistory(hist))
		for i := range hist {
			for j := range hist {
				if hist[i].Client != hist[j].Client && hist[i].Call < hist[j].Ret && hist[j].Call < hist[i].Ret {
					ls.Contended++
				}
			}
		}
	}
	concMu.Lock()
	res.Histories++
	res.Ops += len(hist)
	res.Fingerprints[ls.Fingerprint] = true
	res.Contended += ls.Contended
	res.Aborts += ls.Aborts
	res.Acquires += ls.Acquires
	res.Multi += ls.Multi
	if ls.MaxRetry > res.MaxRetry {
		res.MaxRetry = ls.MaxRetry
	}
	if ls.ShrinkIters > 0 {
		res.ShrinkInWindow++
	}
	if ls.Contended > 0 || ls.Aborts > 0 {
		res.NonTrivial++
	}
	for k, v := range ls.EdgeClasses {
		res.EdgeClasses[k] += v
	}
	concMu.Unlock()
	if ls.Cycle != "" {
		addV("deadlock", "lock-order cycle (potential deadlock): %s", ls.Cycle)
	}
	if ls.MaxRetry > 1000 {
		addV("deadlock", "an RPC went through %d begin/abort cycles while no transaction committed", ls.MaxRetry)
	}
	if cfg.NoCheck {
		return
	}
	// ---- linearizability -------------------------------------------------
	ops := make([]porcupine.Operation, 0, len(hist))
	for _, ho := range hist {
		ops = append(ops, porcupine.Operation{ClientId: ho.Client, Input: ho, Call: ho.Call, Output: ho, Return: ho.Ret})
		res.Stats.Add(ho.Kind)
		if cfg.DirMoves && ho.Kind == "op" && ho.Op.K == OpRename && !bytes.Equal(ho.Op.H, ho.Op.H2) {
			res.Stats.Add(fmt.Sprintf("concurrent cross-directory RENAME of a directory => %s", outcomeStat(ho.Res.Stat)))
		}
		if cfg.DirMoves && ho.Kind == "op" && ho.Op.K == OpLookup && ho.Op.Name == ".." {
			res.Stats.Add(fmt.Sprintf("concurrent LOOKUP('..') of a movable directory => %s", outcomeStat(ho.Res.Stat)))
		}
	}
	r, _ := porcupine.CheckOperationsVerbose(concModel(init), ops, 60*time.Second)
	switch r {
	case porcupine.Illegal:
		addV("lin", "history has no linearization:\n%s", renderHistory(hist))
	case porcupine.Unknown:
		concMu.Lock()
		res.Unknown++
		res.Inconclusive = append(res.Inconclusive, fmt.Sprintf("history %d: linearizability checker timed out (60 s)", h))
		concMu.Unlock()
	}
	concMu.Lock()
	if len(res.Sample) == 0 {
		res.Sample = strings.Split(renderHistory(hist), "\n")
		if len(res.Sample) > 14 {
			res.Sample = res.Sample[:14]
		}
	}
	concMu.Unlock()
}

func outcomeStat(st uint32) string {
	switch st {
	case stOK:
		return "OK"
	case 2:
		return "NOENT"
	case 22:
		return "INVAL (own subtree)"
	case 17:
		return "EXIST"
	case 66:
		return "NOTEMPTY"
	}
	return fmt.Sprintf("status %d", st)
}

func renderHistory(hist []*histOp) string {
	hs := append([]*histOp{}, hist...)
	sort.Slice(hs, func(i, j int) bool { return hs[i].Call < hs[j].Call })
	var sb strings.Builder
	for _, h := range hs {
		switch h.Kind {
		case "final":
			fmt.Fprintf(&sb, "[%d,%d] final state:\n%s", h.Call, h.Ret, h.Dump)
		case "attr":
			fmt.Fprintf(&sb, "[%d,%d] c%d   child %s attrs type=%d size=%d\n", h.Call, h.Ret, h.Client, shortName(h.Attr.Name), h.Attr.Ftype, h.Attr.Size)
		default:
			extra := ""
			if h.Res.HasAttr {
				extra = fmt.Sprintf(" size=%d", h.Res.Size)
			}
			if h.Res.FH != nil {
				extra += fmt.Sprintf(" fh=%x", h.Res.FH)
			}
			if h.Op.K == OpRead {
				extra += fmt.Sprintf(" n=%d data=%s", len(h.Res.Data), hashBytes(h.Res.Data))
			}
			if h.Op.K == OpReaddir || h.Op.K == OpReaddirplus {
				extra += fmt.Sprintf(" names=%v", names(h.Res.Ents))
			}
			fmt.Fprintf(&sb, "[%d,%d] c%d %s => %d%s\n", h.Call, h.Ret, h.Client, h.Op, h.Res.Stat, extra)
		}
	}
	return sb.String()
}

func concJobRes(r *ConcRes) *JobRes {
	out := &JobRes{Viol: r.Viol, Evals: r.Histories, Counters: Counter{}, Inconclusive: r.Inconclusive}
	for f := range r.Fingerprints {
		out.Distinct = append(out.Distinct, f)
	}
	sort.Strings(out.Distinct)
	if r.NonTrivial == 0 {
		out.Distinct = nil
	}
	out.Counters["histories"] = r.Histories
	out.Counters["history_operations"] = r.Ops
	out.Counters["contended_acquires"] = int(r.Contended)
	out.Counters["aborts(abort-and-relock/retry paths)"] = int(r.Aborts)
	out.Counters["lock_acquires"] = int(r.Acquires)
	out.Counters["acquires_while_holding"] = int(r.Multi)
	out.Counters["histories_with_shrinker_transaction_in_window"] = r.ShrinkInWindow
	out.Counters["histories_with_contention_or_abort"] = r.NonTrivial
	out.Counters["porcupine_timeouts"] = r.Unknown
	out.Counters["max_begins_without_commit"] = r.MaxRetry
	for k, v := range r.EdgeClasses {
		out.Counters["edge:"+k] += v
	}
	out.Counters.Merge(r.Stats)
	out.Samples = []interface{}{r.Sample}
	return out
}

func emitAndExit(out *JobRes) {
	fmt.Printf("\nRESULT %s\n", mustJSON(out))
	os.Stdout.Sync()
	os.Exit(0)
}
