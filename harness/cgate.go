package main

// Directed crash points at commit time (C01, C07): one request (A) is parked
// at a hook inside its commit - before it commits, at the release of its
// first lock, after the commit - while the director runs other requests
// (one that the journal rejects as too large, which makes go-journal forget
// its flush position; stable and unstable requests of another client); A is
// released and, at the instant its reply arrives, the disk image is copied
// and recovered: everything A and earlier requests were acknowledged for with
// stable semantics must be there, nothing may be there in part.

import (
	"fmt"
	"time"

	vh "github.com/mit-pdos/go-nfsd/util/verifhook"
)

type CGateRes struct {
	Viol   []Violation
	Runs   int
	Parked int
	Keys   map[string]bool
	Sample []string
}

func runCGate(seed uint64, cas int, tier string) *CGateRes {
	res := &CGateRes{Keys: map[string]bool{}}
	type aop struct {
		name string
		f    func(w map[string][]byte) *Op
	}
	aops := []aop{
		{"CREATE d/new", func(w map[string][]byte) *Op { return &Op{K: OpCreate, H: w["d"], Name: "new"} }},
		{"WRITE f FILE_SYNC", func(w map[string][]byte) *Op {
			return &Op{K: OpWrite, H: w["f"], Off: 3000, Count: 5000, DataLen: 5000, Uid: 9001, Stable: 2}
		}},
		{"COMMIT f (after an UNSTABLE write)", func(w map[string][]byte) *Op { return &Op{K: OpCommit, H: w["f"]} }},
		{"REMOVE d/old", func(w map[string][]byte) *Op { return &Op{K: OpRemove, H: w["d"], Name: "old"} }},
		{"RENAME d/old -> e/moved", func(w map[string][]byte) *Op { return &Op{K: OpRename, H: w["d"], Name: "old", H2: w["e"], Name2: "moved"} }},
		{"SETATTR f size 100", func(w map[string][]byte) *Op { return &Op{K: OpSetattr, H: w["f"], SetSize: true, Size: 100} }},
		{"MKDIR d/sub", func(w map[string][]byte) *Op { return &Op{K: OpMkdir, H: w["d"], Name: "sub"} }},
		{"SYMLINK d/l", func(w map[string][]byte) *Op { return &Op{K: OpSymlink, H: w["d"], Name: "l", Target: longName(5000, 'S')} }},
	}
	hooks := []struct {
		name string
		ev   int
	}{{"pre-commit", vh.EvPreCommit}, {"release of its first lock", vh.EvRelease}, {"post-commit", vh.EvPostCommit}, {"committed", vh.EvCommitted}}
	idx := 0
	for ai := range aops {
		for hi := range hooks {
			for script := 0; script < 3; script++ {
				idx++
				if idx%4 != cas%4 {
					continue
				}
				childLog("cgate A=%s hook=%s script=%d", aops[ai].name, hooks[hi].name, script)
				oneCGate(seed, aops[ai].name, aops[ai].f, hooks[hi].name, hooks[hi].ev, script, cas, res)
				if len(res.Viol) > 0 {
					return res
				}
			}
		}
	}
	return res
}

func oneCGate(seed uint64, aname string, aop func(map[string][]byte) *Op, hname string, ev, script, cas int, res *CGateRes) {
	viol := func(f string, a ...interface{}) {
		if len(res.Viol) < 6 {
			res.Viol = append(res.Viol, Violation{Class: "crash", Msg: fmt.Sprintf("commit gate [A = %s parked at its %s, script %d]: ", aname, hname, script) + fmt.Sprintf(f, a...)})
		}
	}
	const size = 12000
	unstable := cas%3 != 2
	d := NewCDisk(size)
	mon.Reset(0, true)
	srv := StartSrv(d, SrvOpts{Unstable: unstable})
	lim, err := limitsOf(srv.API, srv.Root)
	if err != nil {
		viol("%v", err)
		return
	}
	sres := &SeqRes{Stats: Counter{}, States: map[string]bool{}, DeadProbes: Counter{}}
	s := &Sess{p: Profile{Name: "cgate", Unstable: unstable}, rng: NewRng(mix(seed, uint64(script))), srv: srv, res: sres, inumSeen: map[uint64]int{}}
	s.m = NewModel(srv.Root, lim)
	s.m.ForceSync = !unstable
	w := map[string][]byte{}
	mk := func(k OpKind, dir []byte, name, as string) {
		if r := s.exec(&Op{K: k, H: dir, Name: name, Target: "t"}); r.Stat == stOK {
			w[as] = r.FH
		}
	}
	mk(OpMkdir, srv.Root, "d", "d")
	mk(OpMkdir, srv.Root, "e", "e")
	mk(OpCreate, srv.Root, "f", "f")
	mk(OpCreate, srv.Root, "g", "g")
	mk(OpCreate, w["d"], "old", "old")
	s.nextUid++
	s.exec(&Op{K: OpWrite, H: w["f"], Count: 6000, DataLen: 6000, Uid: s.nextUid, Stable: 2})
	// unstable data that A's (stable) acknowledgement must cover as well
	s.nextUid++
	s.exec(&Op{K: OpWrite, H: w["f"], Off: 8192, Count: 700, DataLen: 700, Uid: s.nextUid, Stable: 0})
	if len(sres.Viol) > 0 || w["d"] == nil || w["f"] == nil {
		viol("setup failed: %v", sres.Viol)
		return
	}
	res.Runs++
	A := aop(w)
	A.Materialize()
	done := make(chan *Res, 1)
	var hit chan struct{}
	armed := make(chan struct{})
	srv.Flush()
	base := d.StartRecording()
	retPos := -1
	go func() {
		mon.SetClient(1)
		hit = mon.ArmHookGate(ev, 1)
		close(armed)
		r := doOp(srv.API, A)
		retPos = d.Mark(EvRet, 0) // the position of the reply among the disk writes
		done <- r
	}()
	<-armed
	parked := false
	var ares *Res
	select {
	case <-hit:
		parked = true
		res.Parked++
	case ares = <-done:
	case <-time.After(30 * time.Second):
		viol("request A neither reached the hook nor returned within 30 s\n%s", allStacks())
		return
	}
	// B: requests of other clients while A is parked (none needs A's locks)
	bdone := make(chan struct{})
	go func() {
		defer close(bdone)
		mon.SetClient(2)
		switch script {
		case 0:
			doOp(srv.API, &Op{K: OpSymlink, H: w["e"], Name: "huge", Target: longName(520*BlockSize+1, 'H')})
		case 1:
			doOp(srv.API, &Op{K: OpSymlink, H: w["e"], Name: "huge", Target: longName(520*BlockSize+1, 'H')})
			op := &Op{K: OpWrite, H: w["g"], Count: 100, DataLen: 100, Uid: 9100, Stable: 0}
			op.Materialize()
			doOp(srv.API, op)
			doOp(srv.API, &Op{K: OpSymlink, H: w["e"], Name: "huge2", Target: longName(520*BlockSize+1, 'H')})
		case 2:
			op := &Op{K: OpWrite, H: w["g"], Count: 100, DataLen: 100, Uid: 9100, Stable: 0}
			op.Materialize()
			doOp(srv.API, op)
		}
	}()
	if parked {
		select {
		case <-bdone:
		case <-time.After(2 * time.Second):
			// B waits for something A holds: let A go on
		}
		mon.OpenHookGate()
		select {
		case ares = <-done:
		case <-time.After(40 * time.Second):
			viol("request A does not return after the gate was opened\n%s", allStacks())
			return
		}
	}
	<-bdone
	mon.Off()
	srv.WaitIdle()
	trace := d.StopRecording()
	// the instant A's reply is there, power is cut: exactly the writes issued
	// before the reply are on the disk
	it := NewCutIter(size, base, trace)
	for it.pos <= retPos {
		if _, ok := it.Step(); !ok {
			break
		}
	}
	img := it.PrefixImage()
	if ares.Stat != stOK {
		viol("request A fails with status %d", ares.Stat)
	} else {
		// reference after A (B's requests change nothing that is compared: the
		// journal-rejected ones have no effect and g is not looked at)
		exp := s.m.Clone()
		exp.Apply(A, ares)
		got, msg := recoverTree(img, size, unstable)
		if msg != "" {
			viol("image taken when A's reply arrived: %s", msg)
		} else {
			want := dumpWithout(exp.DumpEnts(), "/g", "/e/huge", "/e/huge2")
			have := dumpWithout(got, "/g", "/e/huge", "/e/huge2")
			if want != have {
				viol("image taken at the instant A's reply (status 0, a stable acknowledgement) arrived: the recovered tree is not the state after A - acknowledged data is lost or an operation is there in part (- reference, + recovered):\n%s", diffDumps(want, have))
			}
		}
	}
	srv.WaitIdle()
	srv.Shutdown()
	if parked {
		res.Keys[fmt.Sprintf("%s/%s/script%d", aname, hname, script)] = true
	}
	if len(res.Sample) == 0 && parked {
		res.Sample = []string{fmt.Sprintf("A = %s parked at its %s; meanwhile script %d; image at A's reply recovered and compared", aname, hname, script)}
	}
}

func recoverTree(img map[uint64][]byte, size uint64, unstable bool) (got []DumpEnt, errmsg string) {
	defer func() {
		if e := recover(); e != nil {
			errmsg = fmt.Sprintf("panic while recovering: %v", e)
		}
	}()
	srv := StartSrv(NewCDiskFrom(size, img), SrvOpts{Unstable: unstable})
	defer srv.Shutdown()
	got, werr := walkTree(srv.API, srv.Root, nil)
	if len(werr.Msgs) > 0 {
		return nil, werr.Msgs[0]
	}
	fr := srv.Fsck(FsckOpts{AllowShrinking: true})
	if len(fr.Errs) > 0 {
		return nil, "fsck: " + fr.Errs[0]
	}
	return got, ""
}

// dumpWithout renders a dump without the given paths (and what is below them).
func dumpWithout(es []DumpEnt, skip ...string) string {
	var keep []DumpEnt
outer:
	for _, e := range es {
		for _, p := range skip {
			if e.Path == p || (len(e.Path) > len(p) && e.Path[:len(p)+1] == p+"/") {
				continue outer
			}
		}
		keep = append(keep, e)
	}
	return dumpString(keep)
}

func cgateJobRes(r *CGateRes) *JobRes {
	out := &JobRes{Viol: r.Viol, Evals: r.Runs, Counters: Counter{"commitgate_runs": r.Runs, "commitgate_runs_where_A_was_parked_at_the_hook": r.Parked}, Distinct: sortedKeys(r.Keys)}
	for _, x := range r.Sample {
		out.Samples = append(out.Samples, x)
	}
	return out
}
