package main

// Server instances under test.

import (
	"bytes"
	"fmt"

	"github.com/mit-pdos/go-journal/common"
	"github.com/mit-pdos/go-journal/jrnl"
	"github.com/mit-pdos/go-nfsd/fh"
	"github.com/mit-pdos/go-nfsd/nfs"
	"github.com/mit-pdos/go-nfsd/util/timed_disk"
)

type SrvOpts struct {
	Unstable bool
	RPC      bool // talk through rfc1057/XDR over a pipe
	Timed    bool // wrap the disk in util/timed_disk (what `go-nfsd -stats` runs on)
}

type Srv struct {
	D    *CDisk
	N    *nfs.Nfs
	API  API
	stub *rpcStub
	Opts SrvOpts
	Root []byte
	TD   *timed_disk.Disk // with Opts.Timed: the statistics-keeping disk wrapper
}

// rootHandle: the handle MOUNT gives out for the root (the repository's own
// constructor, so a change of the handle format is followed).
func rootHandle() []byte {
	return append([]byte{}, fh.MkRootFh3().Data...)
}

// StartSrv runs MakeNfs (format or recovery) on d.
func StartSrv(d *CDisk, o SrvOpts) *Srv {
	s := &Srv{D: d, Opts: o}
	if o.Timed {
		s.TD = timed_disk.New(d)
		s.N = nfs.MakeNfs(s.TD)
	} else {
		s.N = nfs.MakeNfs(d)
	}
	s.N.Unstable = o.Unstable
	s.API = s.N
	s.Root = rootHandle()
	if o.RPC {
		s.stub = newRPCStub(s.N, s.N)
		s.API = s.stub
		r, err := s.stub.MountRoot()
		if err != nil {
			panic(fmt.Sprintf("MOUNTPROC3_MNT failed: %v", err))
		}
		if !bytes.Equal(r, s.Root) {
			panic(fmt.Sprintf("MOUNTPROC3_MNT returned root handle %x", r))
		}
	}
	return s
}

func (s *Srv) WaitIdle() { s.N.VerifShrinker().VerifWaitIdle() }

// Flush forces everything appended to the journal so far to disk.  Not
// obj.Log.Flush: that flushes up to a saved position which go-journal resets
// to 0 whenever it rejects a transaction (it then flushes nothing).  Instead
// a transaction that rewrites the reserved, unused inode 0 with its own bytes
// is committed with wait: the log is written in order, so everything before
// it is durable when it returns, and nothing changes logically.
func (s *Srv) Flush() {
	st := s.N.VerifFsState()
	op := jrnl.Begin(st.Txn)
	a := st.Super.Inum2Addr(0)
	b := op.ReadBuf(a, common.INODESZ*8)
	op.OverWrite(a, common.INODESZ*8, append([]byte{}, b.Data...))
	op.CommitWait(true)
}

func (s *Srv) Shutdown() {
	if s.stub != nil {
		s.stub.Close()
		s.stub = nil
	}
	s.N.ShutdownNfs()
}

// Restart = clean shutdown followed by a new server on the same disk.
func (s *Srv) Restart() *Srv {
	s.Shutdown()
	return StartSrv(s.D, s.Opts)
}

func (s *Srv) Fsck(o FsckOpts) *FsckRes { return runFsck(s.N.VerifFsState(), o) }

// TransportErr reports a failed RPC transport call (rpc adapter only).
func (s *Srv) TransportErr() error {
	if s.stub != nil {
		return s.stub.Err()
	}
	return nil
}

// limitsOf asks the server for the limits it announces.
func limitsOf(api API, root []byte) (Limits, error) {
	fi := doOp(api, &Op{K: OpFsinfo, H: root})
	pc := doOp(api, &Op{K: OpPathconf, H: root})
	if fi.Stat != stOK || pc.Stat != stOK {
		return Limits{}, fmt.Errorf("FSINFO status %d, PATHCONF status %d on the root handle", fi.Stat, pc.Stat)
	}
	return Limits{NameMax: int(pc.NameMax), WtMax: uint64(fi.Wtmax), RtMax: uint64(fi.Rtmax), MaxFileSize: fi.Maxfilesize}, nil
}

// ClientAPI returns an API for one concurrent client (own connection when the
// rpc adapter is in use).
func (s *Srv) ClientAPI() API {
	if s.stub != nil {
		return s.stub.NewConn()
	}
	return s.API
}
