package main

// Concurrent crash engine for the whole operation mix (C01; feeds C04/C05):
// several clients, each confined to its own directory, run seeded sequences of
// namespace and data operations concurrently on the recording disk (the
// journal then commits several transactions as a group and the installer
// runs next to them).  The clients' operations commute with each other, so the
// recovered subtree of every client must be a state of that client's own
// reference after k of its operations, with
//
//	lo <= k <= hi   lo = everything durable at the cut (covered by a stable
//	                acknowledgement that was called after it had returned and
//	                that has itself returned before the cut), hi = everything
//	                called before the cut,
//
// and the choices of k must respect real time across clients: if X returned
// before Y was called and Y is in the recovered state, X is too (the log is
// written in commit order).  Every image is also checked by fsck.

import (
	"bytes"
	"fmt"
	"sync"
)

type CNSRes struct {
	Viol       []Violation
	Histories  int
	Images     int
	Lossy      int
	NonTrivial int // images where some client had a choice (lo < hi)
	CrossBound int // images where the cross-client order excluded a combination that fits per client
	Keys       map[string]bool
	Sample     []string
	Stats      Counter
	Ops        int
	Overlaps   int // operations that overlapped an operation of another client
	Rejected   int // concurrent requests whose transaction the journal rejected
	Observed   int // observer listings that showed the effect of an operation still in flight or just acknowledged
}

// cnsObs: a READDIRPLUS of one client's directory by an observer.  Namespace
// operations are acknowledged with stable semantics, so a reply that shows
// the effect of an operation proves that it is durable: an observation acts
// like a stable acknowledgement for everything it shows.
type cnsObs struct {
	client  int
	callPos int
	retPos  int
	names   map[string]string // name -> handle (hex; "" if the reply carried none)
	jmin    int               // smallest prefix of the client's sequence that shows exactly this listing (-1: none)
}

type cnsOp struct {
	client, idx int // idx: position in the client's own sequence
	desc        string
	stable      bool
	callPos     int
	retPos      int
}

func runCNS(seed uint64, cas int, tier string) *CNSRes {
	res := &CNSRes{Keys: map[string]bool{}, Stats: Counter{}}
	nh := 3
	if tier == "thorough" {
		nh = 8
	}
	for h := 0; h < nh && len(res.Viol) == 0; h++ {
		childLog("cns history %d", h)
		oneCNS(mix(seed, uint64(cas)*7919+uint64(h)), res, h, cas)
	}
	return res
}

func oneCNS(seed uint64, res *CNSRes, h, cas int) {
	rng := NewRng(seed)
	viol := func(class, f string, a ...interface{}) {
		if len(res.Viol) < 8 {
			res.Viol = append(res.Viol, Violation{Class: class, Msg: fmt.Sprintf("concurrent history %d: ", h) + fmt.Sprintf(f, a...)})
		}
	}
	const size = 20000
	unstable := rng.Intn(4) != 0
	d := NewCDisk(size)
	mon.Reset(0, false)
	srv := StartSrv(d, SrvOpts{Unstable: unstable})
	lim, err := limitsOf(srv.API, srv.Root)
	if err != nil {
		viol("crash", "%v", err)
		return
	}
	nc := 2 + rng.Intn(3)
	nops := 6 + rng.Intn(5)
	sess := make([]*Sess, nc)
	dirs := make([][]byte, nc)
	for c := 0; c < nc; c++ {
		r := doOp(srv.API, &Op{K: OpMkdir, H: srv.Root, Name: fmt.Sprintf("c%d", c)})
		if r.Stat != stOK {
			viol("crash", "setup MKDIR fails: %d", r.Stat)
			return
		}
		dirs[c] = r.FH
		cs := *srv
		cs.Root = r.FH
		w := crashW(CrashCfg{})
		w[OpRename] = 10
		w[OpMkdir] = 6
		p := Profile{Name: "cns", W: w, PDead: 3, DeadOnly: true, PWrongKind: 3, PBadName: 4, Unstable: unstable}
		s := &Sess{p: p, rng: rng.Sub(uint64(c) + 11), srv: &cs, res: &SeqRes{Stats: Counter{}, States: map[string]bool{}, DeadProbes: Counter{}}, inumSeen: map[uint64]int{}}
		s.m = NewModel(r.FH, lim)
		s.m.SubRoot = true
		s.m.Objs[s.m.Root].Fileid = r.Fileid
		s.names = []string{"a", "b", "c", "d0", "d1", "lnk"}
		s.nextUid = uint64(c+1) * 1000000
		sess[c] = s
	}
	var sab []byte
	if r := doOp(srv.API, &Op{K: OpMkdir, H: srv.Root, Name: "sab"}); r.Stat == stOK {
		sab = r.FH
	} else {
		viol("crash", "setup MKDIR fails: %d", r.Stat)
		return
	}
	srv.Flush()
	d.SetPerturb(rng.U64() | 1)
	mon.Reset(rng.U64()|1, true)
	base := d.StartRecording()
	// per client: reference dumps after k operations
	dumps := make([][]string, nc)
	snaps := make([][]*Model, nc)
	hmaps := make([][]map[string][]byte, nc)
	snap := func(c int) {
		m := sess[c].m.Clone()
		es := m.DumpEnts()
		dumps[c] = append(dumps[c], dumpString(es))
		snaps[c] = append(snaps[c], m)
		hmaps[c] = append(hmaps[c], handleMap(es))
	}
	var mu sync.Mutex
	var all []*cnsOp
	per := make([][]*cnsOp, nc)
	var wg sync.WaitGroup
	for c := 0; c < nc; c++ {
		snap(c)
		wg.Add(1)
		go func(c int) {
			defer wg.Done()
			mon.SetClient(c + 1)
			s := sess[c]
			for i := 0; i < nops && !s.stop; i++ {
				var op *Op
				if s.rng.Intn(4) == 0 {
					op = s.genRecycle()
				} else {
					op = s.genOp()
				}
				if op.K == OpWrite && op.Off > 600*BlockSize {
					op.Off %= 600 * BlockSize
				}
				if op.K == OpSetattr && op.SetSize && op.Size > 600*BlockSize {
					op.Size %= 600 * BlockSize
				}
				rec := &cnsOp{client: c, idx: i}
				mu.Lock()
				all = append(all, rec)
				g := len(all) - 1
				mu.Unlock()
				rec.callPos = d.Mark(EvCall, g)
				r := s.exec(op)
				rec.retPos = d.Mark(EvRet, g)
				rec.stable = stableAck(op, r, unstable, s.m)
				rec.desc = fmt.Sprintf("%s => %d", op, r.Stat)
				mu.Lock()
				per[c] = append(per[c], rec)
				snap(c)
				mu.Unlock()
			}
		}(c)
	}
	if h%3 == 1 {
		// next to them: requests whose transaction the journal rejects as too
		// large (they fail without effect, but go-journal resets its saved
		// flush position when it rejects one)
		wg.Add(1)
		go func() {
			defer wg.Done()
			mon.SetClient(nc + 1)
			for i := 0; i < nops; i++ {
				r := doOp(srv.API, &Op{K: OpSymlink, H: sab, Name: fmt.Sprintf("huge%d", i), Target: longName(520*BlockSize+1, 'H')})
				if r.Stat == stOK {
					mu.Lock()
					viol("crash", "SYMLINK with a 520-block target was accepted")
					mu.Unlock()
				}
				res.Rejected++
			}
		}()
	}
	var observations []*cnsObs
	stopObs := make(chan struct{})
	obsDone := make(chan struct{})
	go func() {
		defer close(obsDone)
		mon.SetClient(nc + 2)
		or := rng.Sub(4242)
		for k := 0; k < 400; k++ {
			select {
			case <-stopObs:
				return
			default:
			}
			c := or.Intn(nc)
			ob := &cnsObs{client: c, names: map[string]string{}, jmin: -1}
			ob.callPos = d.Mark(EvCall, 1<<20+k)
			r := doOp(srv.API, &Op{K: OpReaddirplus, H: dirs[c], Count: 1 << 20, Dircount: 1 << 20})
			ob.retPos = d.Mark(EvRet, 1<<20+k)
			if r.Stat != stOK {
				continue
			}
			for _, e := range r.Ents {
				if e.Name == "." || e.Name == ".." {
					continue
				}
				h := ""
				if e.HasFH {
					h = fmt.Sprintf("%x", e.FH)
				}
				ob.names[e.Name] = h
			}
			mu.Lock()
			observations = append(observations, ob)
			mu.Unlock()
		}
	}()
	wg.Wait()
	close(stopObs)
	<-obsDone
	srv.WaitIdle()
	srv.Flush()
	trace := d.StopRecording()
	mon.Off()
	srv.Shutdown()
	res.Histories++
	for c := 0; c < nc; c++ {
		for _, v := range sess[c].res.Viol {
			viol(v.Class, "client %d (confined to its own directory): %s\nits operations:\n%s", c, v.Msg, joinLines(sess[c].res.OpLog))
		}
		res.Ops += len(per[c])
		res.Stats.Merge(sess[c].res.Stats)
	}
	if len(res.Viol) > 0 {
		return
	}
	for _, a := range all {
		for _, b := range all {
			if b.client != a.client && b.callPos < a.retPos && a.callPos < b.retPos {
				res.Overlaps++
				break
			}
		}
	}
	if len(res.Sample) == 0 {
		for _, rec := range all[:minInt(len(all), 12)] {
			res.Sample = append(res.Sample, fmt.Sprintf("client %d [call@%d ret@%d] %s", rec.client, rec.callPos, rec.retPos, rec.desc))
		}
	}
	// which prefix of its client's sequence does each observation show?
	for _, ob := range observations {
		c := ob.client
		klo, khi := 0, 0
		for k, rec := range per[c] {
			if rec.retPos >= 0 && rec.retPos < ob.callPos {
				klo = k + 1
			}
			if rec.callPos < ob.retPos {
				khi = k + 1
			}
		}
		shows := func(k int) bool {
			m := snaps[c][k]
			root := m.Objs[m.Root]
			if len(root.Ents) != len(ob.names) {
				return false
			}
			for n, id := range root.Ents {
				h, ok := ob.names[n]
				if !ok || (h != "" && m.Objs[id].FH != nil && h != fmt.Sprintf("%x", m.Objs[id].FH)) {
					return false
				}
			}
			return true
		}
		for k := klo; k <= khi && k < len(snaps[c]); k++ {
			if shows(k) {
				ob.jmin = k
				break
			}
		}
		// only the operation that produced this listing is proven durable (it
		// is a namespace operation, acknowledged with stable semantics, and
		// the log is written in order): later operations that do not change
		// the listing - unstable writes among them - are not
		for ob.jmin > 0 && shows(ob.jmin-1) {
			ob.jmin--
		}
		if ob.jmin > klo {
			res.Observed++
		}
	}
	// ---- cuts ----------------------------------------------------------------
	it := NewCutIter(size, base, trace)
	lrng := rng.Sub(77)
	nw := 0
	for {
		e, ok := it.Step()
		if !ok || len(res.Viol) > 0 {
			break
		}
		take := false
		desc := ""
		switch e.Kind {
		case EvRet:
			take = true
			if e.Addr >= 1<<20 {
				desc = fmt.Sprintf("cut %d right after the reply to an observer's READDIRPLUS", it.pos)
			} else {
				desc = fmt.Sprintf("cut %d right after the reply to client %d's %s", it.pos, all[e.Addr].client, all[e.Addr].desc)
			}
		case EvWrite:
			nw++
			take = true
			desc = fmt.Sprintf("cut %d after the write of block %d", it.pos, e.Addr)
		}
		if !take {
			continue
		}
		cut := it.pos - 1
		lo := make([]int, nc)
		hi := make([]int, nc)
		for _, st := range all {
			if !(st.stable && st.retPos >= 0 && st.retPos <= cut) {
				continue
			}
			for c := 0; c < nc; c++ {
				for k, rec := range per[c] {
					if rec == st || rec.retPos < st.callPos {
						if k+1 > lo[c] {
							lo[c] = k + 1
						}
					}
				}
			}
		}
		for c := 0; c < nc; c++ {
			for k, rec := range per[c] {
				if rec.callPos <= cut {
					hi[c] = k + 1
				}
			}
		}
		// what an observer was shown before the cut is durable
		for _, ob := range observations {
			if ob.jmin > lo[ob.client] && ob.retPos <= cut {
				lo[ob.client] = ob.jmin
			}
		}
		eval := func(img map[uint64][]byte, kind, idesc string) {
			res.Images++
			what := fmt.Sprintf("%s image, %s%s", kind, desc, idesc)
			cands, msg := recoverCNS(img, size, unstable, nc, dirs, dumps, snaps, hmaps, lo, hi)
			if msg != "" {
				viol("crash", "%s: %s", what, msg)
				return
			}
			for c := 0; c < nc; c++ {
				if len(cands[c].ks) == 0 {
					var ops []string
					for k, rec := range per[c] {
						ops = append(ops, fmt.Sprintf("[%d call@%d ret@%d stable=%v] %s", k, rec.callPos, rec.retPos, rec.stable, rec.desc))
					}
					viol("crash", "%s: the directory of client %d equals none of its reference states S_%d..S_%d (S_%d = everything durable at the cut); difference to S_%d (- reference, + recovered):\n%s\nits operations:\n%s",
						what, c, lo[c], hi[c], lo[c], hi[c], diffDumps(dumps[c][hi[c]], cands[c].got), joinLines(ops))
					return
				}
			}
			for _, m := range cands[0].fsck {
				viol(m.Class, "%s: %s", what, m.Msg)
			}
			// real-time order across clients
			choice := make([]int, nc)
			excluded := false
			var search func(c int) bool
			consistent := func() bool {
				for a := 0; a < nc; a++ {
					for b := 0; b < nc; b++ {
						if a == b {
							continue
						}
						for j := 0; j < choice[b] && j < len(per[b]); j++ {
							y := per[b][j]
							for i := choice[a]; i < len(per[a]); i++ {
								if per[a][i].retPos >= 0 && per[a][i].retPos < y.callPos {
									return false // X returned before Y was called, Y is in, X is not
								}
							}
						}
					}
				}
				return true
			}
			search = func(c int) bool {
				if c == nc {
					if consistent() {
						return true
					}
					excluded = true
					return false
				}
				for i := len(cands[c].ks) - 1; i >= 0; i-- {
					choice[c] = cands[c].ks[i]
					if search(c + 1) {
						return true
					}
				}
				return false
			}
			if !search(0) {
				var sb bytes.Buffer
				for c := 0; c < nc; c++ {
					fmt.Fprintf(&sb, "client %d matches its states %v of S_%d..S_%d\n", c, cands[c].ks, lo[c], hi[c])
				}
				for _, rec := range all {
					fmt.Fprintf(&sb, "client %d [%d call@%d ret@%d] %s\n", rec.client, rec.idx, rec.callPos, rec.retPos, rec.desc)
				}
				viol("crash", "%s: every client's directory is one of its own states, but no combination respects real time (an operation that had returned before another client's operation was called is missing although the later one is there):\n%s", what, sb.String())
				return
			}
			if excluded {
				res.CrossBound++
			}
			nt := false
			for c := 0; c < nc; c++ {
				if lo[c] < hi[c] {
					nt = true
				}
			}
			if nt {
				res.NonTrivial++
				res.Keys[fmt.Sprint(h, lo, hi)] = true
			}
		}
		eval(it.PrefixImage(), "prefix", "")
		if e.Kind == EvWrite && it.WindowSize() > 1 && nw%3 == 0 && len(res.Viol) == 0 {
			img, ld := it.LossyImage(lrng)
			res.Lossy++
			eval(img, "lossy", " [un-barriered writes kept/lost: "+ld+"]")
		}
	}
}

type cnsCand struct {
	ks   []int
	got  string
	fsck []Violation
}

func recoverCNS(img map[uint64][]byte, size uint64, unstable bool, nc int, dirs [][]byte, dumps [][]string, snaps [][]*Model, hmaps [][]map[string][]byte, lo, hi []int) (out []cnsCand, errmsg string) {
	defer func() {
		if e := recover(); e != nil {
			errmsg = fmt.Sprintf("panic while recovering/serving the image: %v", e)
		}
	}()
	d := NewCDiskFrom(size, img)
	srv := StartSrv(d, SrvOpts{Unstable: unstable})
	defer srv.Shutdown()
	out = make([]cnsCand, nc)
	for c := 0; c < nc; c++ {
		lk := doOp(srv.API, &Op{K: OpLookup, H: srv.Root, Name: fmt.Sprintf("c%d", c)})
		if lk.Stat != stOK || !bytes.Equal(lk.FH, dirs[c]) {
			return nil, fmt.Sprintf("directory c%d: LOOKUP status %d handle %x, it was created with handle %x", c, lk.Stat, lk.FH, dirs[c])
		}
		got, werr := walkTree(srv.API, lk.FH, nil)
		if len(werr.Msgs) > 0 {
			return nil, fmt.Sprintf("directory c%d: %s", c, werr.Msgs[0])
		}
		gs := dumpString(got)
		out[c].got = gs
		gh := handleMap(got)
		for k := lo[c]; k <= hi[c]; k++ {
			if dumps[c][k] != gs || !timesAgree(snaps[c][k], got) {
				continue
			}
			same := true
			for p, fh := range hmaps[c][k] {
				if g, ok := gh[p]; ok && fh != nil && !bytes.Equal(g, fh) {
					same = false
				}
			}
			if same {
				out[c].ks = append(out[c].ks, k)
			}
		}
	}
	fr := srv.Fsck(FsckOpts{AllowShrinking: true, CheckCaches: true})
	for _, m := range fr.Errs {
		out[0].fsck = append(out[0].fsck, Violation{Class: "fsck", Msg: m})
	}
	for _, m := range fr.Leaks {
		out[0].fsck = append(out[0].fsck, Violation{Class: "leak", Msg: m})
	}
	for _, m := range fr.CacheErrs {
		out[0].fsck = append(out[0].fsck, Violation{Class: "crash", Msg: "after recovery: " + m})
	}
	srv.WaitIdle()
	return out, ""
}

func cnsJobRes(r *CNSRes) *JobRes {
	out := &JobRes{Viol: r.Viol, Evals: r.Images, Counters: Counter{}, Distinct: sortedKeys(r.Keys)}
	out.Counters["concurrent_mixed_histories"] = r.Histories
	out.Counters["concurrent_mixed_operations"] = r.Ops
	out.Counters["concurrent_mixed_operations_overlapping_another_client"] = r.Overlaps
	out.Counters["concurrent_mixed_crash_images"] = r.Images
	out.Counters["concurrent_mixed_lossy_images"] = r.Lossy
	out.Counters["concurrent_journal_rejected_requests"] = r.Rejected
	out.Counters["observer_listings_that_pin_a_newer_prefix"] = r.Observed
	out.Counters["concurrent_mixed_images_nontrivial"] = r.NonTrivial
	out.Counters["concurrent_mixed_images_where_real_time_order_excluded_a_combination"] = r.CrossBound
	for k, v := range r.Stats {
		out.Counters["cns:"+k] += v
	}
	out.Samples = []interface{}{map[string]interface{}{"engine": "cns", "first_ops": r.Sample}}
	return out
}
