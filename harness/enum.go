package main

// C13: page-protocol monitor for READDIR / READDIRPLUS.

import (
	"bytes"
	"fmt"
	"sync"
	"sync/atomic"

	"github.com/mit-pdos/go-nfsd/dir"
)

type EnumRes struct {
	Viol     []Violation
	Enums    int
	Pages    int
	Multi    int // enumerations with >= 2 pages
	Mutated  int // enumerations with a mutation inside
	Combos   map[string]bool
	Resumes  int
	Sample   []string
	Shapes   Counter
}

type enumSess struct {
	s   *Sess
	res *EnumRes
}

func (e *enumSess) viol(f string, a ...interface{}) {
	if len(e.res.Viol) < 20 {
		e.res.Viol = append(e.res.Viol, Violation{Class: "enum", Msg: fmt.Sprintf(f, a...)})
	}
}

type page struct {
	ents []Ent
	eof  bool
}

// enumerate runs one page-by-page enumeration.  between (may be nil) is
// called after every page and may mutate the directory; it returns the names
// it added and removed.
func (e *enumSess) enumerate(dfh []byte, plus bool, count, dircount uint32, startCookie uint64, slotsNow func() int, between func(pageNo int)) ([]Ent, bool) {
	api := e.s.srv.API
	var all []Ent
	cookie := startCookie
	trace := ""
	for pg := 0; ; pg++ {
		// every call returns at least one entry beyond the cookie or eof, so
		// an enumeration takes at most (slots that ever existed) + 3 calls
		if limit := slotsNow() + 3; pg > limit {
			e.viol("enumeration (plus=%v count=%d dircount=%d) needs more than %d calls for a directory of %d slots; pages (cookie->names): %s", plus, count, dircount, limit, limit-3, trace)
			return all, false
		}
		k := OpReaddir
		if plus {
			k = OpReaddirplus
		}
		r := doOp(api, &Op{K: k, H: dfh, Cookie: cookie, Count: count, Dircount: dircount})
		e.res.Pages++
		if r.Stat != stOK {
			e.viol("%s cookie=%d count=%d dircount=%d: status %d", k, cookie, count, dircount, r.Stat)
			return all, false
		}
		if len(r.Ents) == 0 && !r.Eof {
			e.viol("%s cookie=%d count=%d dircount=%d: neither an entry nor end-of-directory (no progress)", k, cookie, count, dircount)
			return all, false
		}
		for _, en := range r.Ents {
			if en.Cookie == cookie && len(all) > 0 {
				e.viol("%s: entry %s returned with the cookie %d that was passed in (no progress)", k, shortName(en.Name), cookie)
				return all, false
			}
		}
		all = append(all, r.Ents...)
		trace += fmt.Sprintf("%d->%v ", cookie, names(r.Ents))
		if len(r.Ents) > 0 {
			cookie = r.Ents[len(r.Ents)-1].Cookie
		}
		if pg == 1 {
			e.res.Multi++
		}
		if r.Eof {
			return all, true
		}
		if between != nil {
			between(pg)
		}
	}
}

// checkEntries cross-checks ids, handles and attributes with LOOKUP/GETATTR
// at the same quiescent instant.
func (e *enumSess) checkEntries(dfh []byte, ents []Ent, what string) {
	api := e.s.srv.API
	for _, en := range ents {
		lk := doOp(api, &Op{K: OpLookup, H: dfh, Name: en.Name})
		if lk.Stat != stOK {
			e.viol("%s: entry %s is listed but LOOKUP gives status %d", what, shortName(en.Name), lk.Stat)
			continue
		}
		if lk.HasAttr && lk.Fileid != en.Fileid {
			e.viol("%s: entry %s has fileid %d, the named object has %d", what, shortName(en.Name), en.Fileid, lk.Fileid)
		}
		if en.HasFH && !bytes.Equal(en.FH, lk.FH) {
			e.viol("%s: entry %s carries handle %x, LOOKUP gives %x", what, shortName(en.Name), en.FH, lk.FH)
		}
		if en.HasFH {
			ga := doOp(api, &Op{K: OpGetattr, H: en.FH})
			if ga.Stat != stOK {
				e.viol("%s: handle %x returned for entry %s is not usable (GETATTR status %d)", what, en.FH, shortName(en.Name), ga.Stat)
			}
		}
		if en.HasAttr && lk.HasAttr {
			if en.Ftype != lk.Ftype || en.AFileid != lk.Fileid || (en.Ftype != KDir && en.Size != lk.Size) {
				e.viol("%s: entry %s attributes (type %d size %d fileid %d) are not those of the named object (type %d size %d fileid %d)", what, shortName(en.Name), en.Ftype, en.Size, en.AFileid, lk.Ftype, lk.Size, lk.Fileid)
			}
		}
	}
}

func names(ents []Ent) []string {
	var r []string
	for _, e := range ents {
		r = append(r, e.Name)
	}
	return r
}

// buildDir creates a directory of the given shape and returns its handle,
// the set of names (without . and ..) and the number of slots.
func (e *enumSess) buildDir(shape string, idx int) ([]byte, map[string]bool, int) {
	s := e.s
	r := s.exec(&Op{K: OpMkdir, H: s.srv.Root, Name: fmt.Sprintf("dir%d", idx)})
	if r.Stat != stOK {
		e.viol("cannot create test directory: status %d", r.Stat)
		return nil, nil, 0
	}
	dfh := r.FH
	set := map[string]bool{}
	mk := func(name string, i int) {
		k := OpCreate
		if i%5 == 1 {
			k = OpMkdir
		} else if i%7 == 2 {
			k = OpSymlink
		}
		rr := s.exec(&Op{K: k, H: dfh, Name: name, Target: "t"})
		if rr.Stat == stOK {
			set[name] = true
			if k == OpCreate && i%3 == 0 {
				s.nextUid++
				n := uint32(1 + (i*37)%9000)
				s.exec(&Op{K: OpWrite, H: rr.FH, Count: n, DataLen: n, Uid: s.nextUid, Stable: 2})
			}
		}
	}
	rm := func(name string) {
		if !set[name] {
			return
		}
		o := s.m.lookupIn(s.m.Obj(dfh), name)
		k := OpRemove
		if o != nil && o.Kind == KDir {
			k = OpRmdir
		}
		if rr := s.exec(&Op{K: k, H: dfh, Name: name}); rr.Stat == stOK {
			delete(set, name)
		}
	}
	n := 0
	switch shape {
	case "empty":
	case "one":
		n = 1
	case "small":
		n = 7
	case "block": // exactly fills the first block (32 slots incl. . and ..)
		n = 30
	case "block+1":
		n = 31
	case "multi":
		n = 100
	case "holes", "holes-front", "longnames", "sparse":
		n = 70
	}
	for i := 0; i < n; i++ {
		name := fmt.Sprintf("e%03d", i)
		if shape == "longnames" {
			name = fmt.Sprintf("e%03d", i) + longName((i*13)%(s.m.Lim.NameMax-3), 'n') // lengths 4..name_max
		}
		mk(name, i)
	}
	switch shape {
	case "holes":
		for i := 3; i < n; i += 4 {
			rm(fmt.Sprintf("e%03d", i))
		}
		for i := 40; i < 50; i++ {
			rm(fmt.Sprintf("e%03d", i))
		}
	case "holes-front":
		for i := 0; i < 12; i++ {
			rm(fmt.Sprintf("e%03d", i))
		}
	case "sparse":
		for i := 0; i < n; i++ {
			if i != 5 && i != 33 && i != 69 {
				rm(fmt.Sprintf("e%03d", i))
			}
		}
	}
	slots := 2 + n
	return dfh, set, slots
}

var enumShapes = []string{"empty", "one", "small", "block", "block+1", "multi", "holes", "holes-front", "longnames", "sparse"}

func runEnum(seed uint64, cas int, tier string) *EnumRes {
	res := &EnumRes{Combos: map[string]bool{}, Shapes: Counter{}}
	rng := NewRng(mix(seed, uint64(cas)+7777))
	p := Profile{Name: "C13", DiskBlocks: 20000, Unstable: true, RPC: cas%4 == 3}
	d := NewCDisk(p.DiskBlocks)
	srv := StartSrv(d, SrvOpts{Unstable: true, RPC: p.RPC})
	lim, err := limitsOf(srv.API, srv.Root)
	sres := &SeqRes{Stats: Counter{}, States: map[string]bool{}, DeadProbes: Counter{}}
	s := &Sess{p: p, rng: rng, srv: srv, res: sres, inumSeen: map[uint64]int{}}
	e := &enumSess{s: s, res: res}
	if err != nil {
		e.viol("%v", err)
		return res
	}
	s.m = NewModel(srv.Root, lim)
	s.names = namePool
	// some churn first so that inode numbers of children are both smaller and
	// larger than their directory's and generations differ
	for i := 0; i < 20; i++ {
		s.exec(&Op{K: OpCreate, H: srv.Root, Name: fmt.Sprintf("tmp%d", i)})
	}
	for i := 0; i < 20; i += 2 {
		s.exec(&Op{K: OpRemove, H: srv.Root, Name: fmt.Sprintf("tmp%d", i)})
	}
	if cas%2 == 1 {
		s.restart()
	}
	shape := enumShapes[cas%len(enumShapes)]
	res.Shapes.Add(shape)
	dfh, set, slots := e.buildDir(shape, cas)
	if dfh == nil {
		return res
	}
	// an enumeration request that names one of the directory's children (a
	// file, a symlink) must be refused and must not get in the way of the
	// enumerations of the directory itself (READDIRPLUS looks at every child)
	for n := range set {
		lk := doOp(s.srv.API, &Op{K: OpLookup, H: dfh, Name: n})
		if lk.Stat == stOK && int(lk.Ftype) != KDir {
			for _, k := range []OpKind{OpReaddir, OpReaddirplus} {
				if r := doOp(s.srv.API, &Op{K: k, H: lk.FH, Count: 4096, Dircount: 4096}); r.Stat == stOK {
					e.viol("%s of the non-directory %s succeeds", k, shortName(n))
				}
			}
			break
		}
	}
	counts := []uint32{0, 1, 2, 50, 90, 100, 128, 160, 200, 300, 512, 1000, 4096, 65536, ^uint32(0)}
	dcs := []uint32{0, 1, 20, 40, 100, 512, 4096, ^uint32(0)}
	type lim2 struct {
		plus      bool
		cnt, dcnt uint32
	}
	var lims []lim2
	for _, c := range counts {
		lims = append(lims, lim2{false, c, 0})
	}
	for _, c := range []uint32{0, 1, 200, 300, 400, 600, 1000, 4096, 65536, ^uint32(0)} {
		for _, dc := range dcs {
			if rng.Intn(3) != 0 || tier == "thorough" {
				lims = append(lims, lim2{true, c, dc})
			}
		}
	}
	check := func(ents []Ent, want map[string]bool, what string, lenient map[string]bool) {
		seen := map[string]int{}
		for _, en := range ents {
			seen[en.Name]++
		}
		for n, c := range seen {
			if n == "." || n == ".." {
				if c > 1 {
					e.viol("%s: %s returned %d times", what, shortName(n), c)
				}
				continue
			}
			if lenient[n] {
				continue
			}
			if !want[n] {
				e.viol("%s: entry %s returned but it was never in the directory", what, shortName(n))
			} else if c > 1 {
				e.viol("%s: entry %s returned %d times", what, shortName(n), c)
			}
		}
		for n := range want {
			if seen[n] == 0 && !lenient[n] {
				e.viol("%s: entry %s is in the directory throughout but was not returned (got %d entries)", what, shortName(n), len(ents))
			}
		}
		if seen["."] != 1 || seen[".."] != 1 {
			e.viol("%s: '.' returned %d times and '..' %d times", what, seen["."], seen[".."])
		}
	}
	// 1. quiescent enumerations with every limit class
	var ref []Ent
	for _, l := range lims {
		what := fmt.Sprintf("shape=%s plus=%v count=%d dircount=%d", shape, l.plus, l.cnt, l.dcnt)
		ents, ok := e.enumerate(dfh, l.plus, l.cnt, l.dcnt, 0, func() int { return slots }, nil)
		res.Enums++
		res.Combos[fmt.Sprintf("%s/%v/%s/%s", shape, l.plus, limClass(l.cnt), limClass(l.dcnt))] = true
		if !ok {
			break
		}
		check(ents, set, what, nil)
		if ref == nil {
			ref = ents
			e.checkEntries(dfh, ents, what)
			if len(res.Sample) == 0 {
				res.Sample = append(res.Sample, what+": "+fmt.Sprint(names(ents)))
			}
		} else if l.plus && rng.Intn(4) == 0 {
			e.checkEntries(dfh, ents, what)
		}
		if len(res.Viol) > 0 {
			break
		}
	}
	// 2. resume from every cookie previously returned: must return exactly
	// the entries that followed in the reference enumeration
	if len(res.Viol) == 0 && ref != nil {
		for i, en := range ref {
			if tier != "thorough" && len(ref) > 12 && rng.Intn(4) != 0 {
				continue
			}
			for _, plus := range []bool{false, true} {
				got, ok := e.enumerate(dfh, plus, 4096, 4096, en.Cookie, func() int { return slots }, nil)
				res.Enums++
				res.Resumes++
				if !ok {
					break
				}
				want := names(ref[i+1:])
				if fmt.Sprint(names(got)) != fmt.Sprint(want) {
					e.viol("resuming (plus=%v) from the cookie %d of entry %s returns %v, the entries after it are %v", plus, en.Cookie, shortName(en.Name), names(got), want)
				}
			}
			if len(res.Viol) > 0 {
				break
			}
		}
	}
	// 3. enumerations with adds/removes between the pages
	if len(res.Viol) == 0 {
		for rep := 0; rep < 6 && len(res.Viol) == 0; rep++ {
			lenient := map[string]bool{}
			stable := map[string]bool{}
			for n := range set {
				stable[n] = true
			}
			nm := 0
			between := func(pg int) {
				if rng.Intn(2) == 0 {
					return
				}
				nm++
				if rng.Intn(2) == 0 && len(set) > 0 {
					// remove one existing name
					var ns []string
					for n := range set {
						ns = append(ns, n)
					}
					sortStrings(ns)
					n := ns[rng.Intn(len(ns))]
					o := s.m.lookupIn(s.m.Obj(dfh), n)
					k := OpRemove
					if o != nil && o.Kind == KDir {
						k = OpRmdir
					}
					if rr := s.exec(&Op{K: k, H: dfh, Name: n}); rr.Stat == stOK {
						delete(set, n)
						delete(stable, n)
						lenient[n] = true
					}
				} else {
					n := fmt.Sprintf("add%d_%d", rep, nm)
					if rr := s.exec(&Op{K: OpCreate, H: dfh, Name: n}); rr.Stat == stOK {
						set[n] = true
						lenient[n] = true
					}
				}
			}
			plus := rep%2 == 1
			cnt := []uint32{1, 100, 200, 300, 400, 512}[rng.Intn(6)]
			dc := []uint32{1, 40, 100, 4096}[rng.Intn(4)]
			base := e.dirSlots(dfh, slots)
			ents, ok := e.enumerate(dfh, plus, cnt, dc, 0, func() int { return base + nm }, between)
			res.Enums++
			if nm > 0 {
				res.Mutated++
			}
			if ok {
				check(ents, stable, fmt.Sprintf("shape=%s plus=%v count=%d dircount=%d with %d mutations between pages", shape, plus, cnt, dc, nm), lenient)
			}
		}
	}
	// 4. concurrent variant: a mutator works on its own names during the calls
	if len(res.Viol) == 0 && (tier == "thorough" || cas%3 == 0) {
		stop := make(chan struct{})
		var created int64
		var wg sync.WaitGroup
		wg.Add(1)
		go func() {
			defer wg.Done()
			for i := 0; ; i++ {
				select {
				case <-stop:
					return
				default:
				}
				n := fmt.Sprintf("conc%d", i%9)
				atomic.AddInt64(&created, 1)
				doOp(srv.API, &Op{K: OpCreate, H: dfh, Name: n})
				doOp(srv.API, &Op{K: OpRemove, H: dfh, Name: n})
			}
		}()
		lenient := map[string]bool{}
		for i := 0; i < 9; i++ {
			lenient[fmt.Sprintf("conc%d", i)] = true
		}
		for rep := 0; rep < 8 && len(res.Viol) == 0; rep++ {
			plus := rep%2 == 0
			base := e.dirSlots(dfh, slots)
			ents, ok := e.enumerate(dfh, plus, []uint32{1, 200, 400, 4096}[rep%4], 100, 0, func() int { return base + 40 + int(atomic.LoadInt64(&created)) }, nil)
			res.Enums++
			res.Mutated++
			if ok {
				check(ents, set, fmt.Sprintf("shape=%s plus=%v with a concurrent mutator", shape, plus), lenient)
			}
		}
		close(stop)
		wg.Wait()
		for i := 0; i < 9; i++ {
			doOp(srv.API, &Op{K: OpRemove, H: dfh, Name: fmt.Sprintf("conc%d", i)})
		}
	}
	for _, v := range sres.Viol {
		res.Viol = append(res.Viol, v)
	}
	srv.WaitIdle()
	srv.Shutdown()
	return res
}

func limClass(c uint32) string {
	switch {
	case c == 0:
		return "0"
	case c == 1:
		return "1"
	case c < 150:
		return "<1entry"
	case c < 400:
		return "~2entries"
	case c <= 4096:
		return "page"
	case c == ^uint32(0):
		return "max"
	}
	return "big"
}

// dirSlots: number of entry slots the directory has now (its size in entries).
func (e *enumSess) dirSlots(dfh []byte, atLeast int) int {
	ga := doOp(e.s.srv.API, &Op{K: OpGetattr, H: dfh})
	if ga.Stat == stOK && int(ga.Size/dir.DIRENTSZ) > atLeast {
		return int(ga.Size / dir.DIRENTSZ)
	}
	return atLeast
}

// enumAfterHistory (C13 after concurrent or directed histories): every
// directory of the final tree is enumerated page by page with both procedures
// at a quiescent moment; no name may come twice, every entry must be the
// object LOOKUP finds under that name, and the enumeration must terminate.
func enumAfterHistory(api API, dump []DumpEnt) (msgs []string, enums int) {
	for _, de := range dump {
		if de.Kind != KDir || de.FH == nil {
			continue
		}
		for _, plus := range []bool{false, true} {
			k := OpReaddir
			if plus {
				k = OpReaddirplus
			}
			seen := map[string]uint64{}
			cookie := uint64(0)
			enums++
			for pg := 0; ; pg++ {
				if pg > 5000 {
					msgs = append(msgs, fmt.Sprintf("%s of %q does not end after 5000 pages", k, de.Path))
					break
				}
				r := doOp(api, &Op{K: k, H: de.FH, Cookie: cookie, Count: 400, Dircount: 200})
				if r.Stat != stOK {
					msgs = append(msgs, fmt.Sprintf("%s of %q cookie %d: status %d", k, de.Path, cookie, r.Stat))
					break
				}
				if len(r.Ents) == 0 && !r.Eof {
					msgs = append(msgs, fmt.Sprintf("%s of %q cookie %d: neither an entry nor end-of-directory", k, de.Path, cookie))
					break
				}
				for _, en := range r.Ents {
					if id, dup := seen[en.Name]; dup {
						msgs = append(msgs, fmt.Sprintf("%s of %q returns the name %s twice (file ids %d and %d)", k, de.Path, shortName(en.Name), id, en.Fileid))
					}
					seen[en.Name] = en.Fileid
					lk := doOp(api, &Op{K: OpLookup, H: de.FH, Name: en.Name})
					if lk.Stat != stOK {
						msgs = append(msgs, fmt.Sprintf("%s of %q lists %s but LOOKUP gives status %d", k, de.Path, shortName(en.Name), lk.Stat))
					} else if lk.HasAttr && lk.Fileid != en.Fileid {
						msgs = append(msgs, fmt.Sprintf("%s of %q lists %s with file id %d, the named object has %d", k, de.Path, shortName(en.Name), en.Fileid, lk.Fileid))
					}
					cookie = en.Cookie
				}
				if r.Eof {
					break
				}
			}
		}
	}
	return msgs, enums
}
