package main

// C11: no request can crash or wedge the server.  Structured hostile
// argument generation for all NFS and MOUNT procedures of nfs.Nfs and
// simple.Nfs in several file-system states, plus byte-level mutation of
// framed RPC messages.  The oracle is the crash/hang monitor: this process
// announces every request before sending it (STEP lines); a panic, fatal
// error or memory exhaustion kills it and the parent reports the last step; a
// watchdog reports requests that make no progress; a canary checks that the
// server keeps serving correctly.

import (
	"runtime"
	"encoding/binary"
	"fmt"
	"io"
	"net"
	"strings"
	"time"

	nt "github.com/mit-pdos/go-nfsd/nfstypes"
	"github.com/mit-pdos/go-nfsd/simple"
	"github.com/zeldovich/go-rpcgen/rfc1057"
	"github.com/zeldovich/go-rpcgen/xdr"
)

type HostileRes struct {
	Viol     []Violation
	Requests int
	Keys     map[string]bool
	Statuses map[uint32]bool
	Canaries int
	Fuzzed   int
	Sample   []string
}

var hostileNames = []string{"", ".", "..", "a", "b", "f1", "d0", "x/y", "nul\x00", "\xff\xfe"}

func hostileU64(r *Rng, lim Limits) uint64 {
	b := uint64(BlockSize)
	pool := []uint64{0, 1, b - 1, b, b + 1, 8*b - 1, 8 * b, 8*b + 1, (8+512)*b - 1, (8 + 512) * b, (8+512)*b + 1,
		lim.MaxFileSize - b, lim.MaxFileSize - 1, lim.MaxFileSize, lim.MaxFileSize + 1, 1<<31 - 1, 1 << 31, 1<<32 - 1, 1 << 32, 1<<32 + 1,
		1 << 62, 1<<63 - 1, 1 << 63, 1<<63 + 1, ^uint64(0) - 4096, ^uint64(0) - 10, ^uint64(0) - 1, ^uint64(0), 127, 128, 129, 4095 * 128}
	if r.Intn(5) == 0 {
		return r.U64() >> uint(r.Intn(64))
	}
	return pool[r.Intn(len(pool))]
}

func hostileU32(r *Rng, lim Limits) uint32 {
	w := uint32(lim.WtMax)
	pool := []uint32{0, 1, 2, 3, 4095, 4096, 4097, 65535, 65536, 65537, w - 1, w, w + 1, 2 * w, 1<<31 - 1, 1 << 31, ^uint32(0) - 1, ^uint32(0)}
	return pool[r.Intn(len(pool))]
}

func hostileEnum(r *Rng) int {
	return []int{0, 1, 2, 3, 4, 99, 1 << 31, -1}[r.Intn(8)]
}

func (s *Sess) hostileHandle(lim Limits) []byte {
	r := s.rng
	switch r.Intn(10) {
	case 0, 1, 2:
		if o := s.pickObj(0); o != nil {
			return o.FH
		}
	case 3:
		if d := s.m.DeadFHs(); len(d) > 0 {
			return d[r.Intn(len(d))]
		}
	case 4: // valid length, inum at a boundary, any generation
		h := make([]byte, 16)
		inum := []uint64{0, 1, 2, 32767, 32768, 32769, 1 << 20, 1 << 32, 1 << 62, ^uint64(0)}[r.Intn(10)]
		binary.LittleEndian.PutUint64(h, inum)
		binary.LittleEndian.PutUint64(h[8:], []uint64{0, 1, 2, ^uint64(0)}[r.Intn(4)])
		return h
	case 5: // any length 0..64 with arbitrary bytes
		h := make([]byte, r.Intn(65))
		for i := range h {
			h[i] = byte(r.U64())
		}
		return h
	case 6: // a live handle, truncated or extended
		if o := s.pickObj(0); o != nil {
			h := append([]byte{}, o.FH...)
			if r.Intn(2) == 0 {
				return h[:r.Intn(16)]
			}
			return append(h, make([]byte, 1+r.Intn(48))...)
		}
	}
	return s.garbageHandle()
}

func (s *Sess) hostileName(lim Limits) string {
	r := s.rng
	switch r.Intn(8) {
	case 0:
		return longName([]int{lim.NameMax - 1, lim.NameMax, lim.NameMax + 1, 255, 256, 1000, 70000}[r.Intn(7)], 'h')
	case 1, 2:
		return s.existingName(s.srv.Root)
	}
	return hostileNames[r.Intn(len(hostileNames))]
}

func (s *Sess) genHostile(lim Limits) *Op {
	r := s.rng
	k := OpKind(r.Intn(int(OpNull) + 1))
	op := &Op{K: k, H: s.hostileHandle(lim)}
	switch k {
	case OpSetattr:
		op.Guard = r.Intn(3) == 0
		op.SetSize = r.Intn(3) != 0
		op.Size = hostileU64(r, lim)
		op.SetAtime = hostileEnum(r)
		op.SetMtime = hostileEnum(r)
		op.Atime = [2]uint32{uint32(r.U64()), uint32(r.U64())}
		op.Mtime = [2]uint32{uint32(r.U64()), uint32(r.U64())}
	case OpLookup, OpRemove, OpRmdir, OpMkdir, OpMknod:
		op.Name = s.hostileName(lim)
	case OpCreate:
		op.Name = s.hostileName(lim)
		op.Mode = hostileEnum(r)
		if r.Intn(3) == 0 {
			op.SetSize = true
			op.Size = hostileU64(r, lim)
		}
	case OpSymlink:
		op.Name = s.hostileName(lim)
		op.Target = longName([]int{0, 1, 100, 4096, 4097, 70000}[r.Intn(6)], 'T')
	case OpRead:
		op.Off = hostileU64(r, lim)
		op.Count = hostileU32(r, lim)
		if op.Count > 1<<22 && r.Intn(4) != 0 {
			op.Count = 1 << 20 // huge reads of huge sparse files are slow, not interesting more than a few times
		}
		if r.Intn(3) == 0 {
			// a small live file read from its beginning with a count far beyond
			// its size: the reply is a few bytes, whatever the count says
			for _, o := range s.m.LiveObjs() {
				if o.Kind == KReg && o.FH != nil && o.Size > 0 && o.Size < 1<<20 {
					op.H, op.Off = o.FH, uint64(r.Intn(2))
					op.Count = []uint32{1 << 30, 1<<31 - 1, 1 << 31, ^uint32(0)}[r.Intn(4)]
					break
				}
			}
		}
	case OpWrite:
		op.Off = hostileU64(r, lim)
		op.Count = hostileU32(r, lim)
		op.DataLen = op.Count
		switch r.Intn(4) {
		case 0:
			op.DataLen = hostileU32(r, lim)
		case 1:
			op.DataLen = 0
		}
		if op.DataLen > 3<<20 {
			op.DataLen = 3 << 20
		}
		s.nextUid++
		op.Uid = s.nextUid
		op.Stable = hostileEnum(r)
	case OpRename:
		op.Name = s.hostileName(lim)
		op.Name2 = s.hostileName(lim)
		op.H2 = s.hostileHandle(lim)
		if r.Intn(3) == 0 {
			op.H2 = op.H
		}
		if r.Intn(4) == 0 {
			// a live directory and a handle of another incarnation of the same
			// inode number, with names that exist
			if d := s.pickObj(KDir); d != nil {
				op.H = d.FH
				alias := append([]byte{}, d.FH...)
				alias[8] += byte(1 + r.Intn(3))
				op.H2 = alias
				op.Name = s.existingName(d.FH)
				op.Name2 = s.existingName(d.FH)
				if r.Intn(2) == 0 {
					op.H, op.H2 = op.H2, op.H
				}
			}
		}
		s.avoidKnownRename(op)
	case OpLink:
		op.H2 = s.hostileHandle(lim)
		op.Name = s.hostileName(lim)
	case OpReaddir, OpReaddirplus:
		op.Cookie = hostileU64(r, lim)
		op.Count = hostileU32(r, lim)
		op.Dircount = hostileU32(r, lim)
	case OpCommit:
		op.Off = hostileU64(r, lim)
		op.Count = hostileU32(r, lim)
	}
	return op
}

func hostileKey(op *Op, lim Limits) string {
	hl := "h16"
	if len(op.H) != 16 {
		hl = fmt.Sprintf("h%d", minInt(len(op.H)/8*8, 64))
	}
	a := ""
	switch op.K {
	case OpRead, OpWrite, OpCommit:
		a = fmt.Sprintf("off%s/cnt%s", u64Class(op.Off, lim), u64Class(uint64(op.Count), lim))
		if op.K == OpWrite && op.DataLen != op.Count {
			a += "/mismatch"
		}
	case OpSetattr:
		a = "size" + u64Class(op.Size, lim)
	case OpReaddir, OpReaddirplus:
		a = fmt.Sprintf("cookie%s", u64Class(op.Cookie, lim))
	default:
		n := op.Name
		switch {
		case n == "" || n == "." || n == "..":
			a = "name" + n
		case len(n) > lim.NameMax:
			a = "namelong"
		}
	}
	return op.K.String() + "/" + hl + "/" + a
}

func u64Class(v uint64, lim Limits) string {
	switch {
	case v == 0:
		return "0"
	case v < BlockSize:
		return "<blk"
	case v <= lim.WtMax:
		return "<=wtmax"
	case v <= lim.MaxFileSize:
		return "<=maxfile"
	case v < 1<<63:
		return "<2^63"
	}
	return ">=2^63"
}

// canary: the server must keep serving correctly.
func (s *Sess) canary(res *HostileRes, n int) {
	api := s.srv.API
	res.Canaries++
	bad := func(f string, a ...interface{}) {
		if len(res.Viol) < 10 {
			res.Viol = append(res.Viol, Violation{Class: "canary", Msg: fmt.Sprintf("canary after %d hostile requests: ", res.Requests) + fmt.Sprintf(f, a...)})
		}
	}
	if r := doOp(api, &Op{K: OpGetattr, H: s.srv.Root}); r.Stat != stOK || r.Ftype != KDir {
		bad("GETATTR of the root: status %d type %d", r.Stat, r.Ftype)
	}
	name := fmt.Sprintf("canary-%d", n)
	cr := s.exec(&Op{K: OpCreate, H: s.srv.Root, Name: name})
	if cr.Stat == stOK {
		s.nextUid++
		w := s.exec(&Op{K: OpWrite, H: cr.FH, Off: 100, Count: 5000, DataLen: 5000, Uid: s.nextUid, Stable: 2})
		if w.Stat == stOK {
			rd := s.exec(&Op{K: OpRead, H: cr.FH, Off: 0, Count: 8192})
			if rd.Stat != stOK || len(rd.Data) != 100+int(w.Count) {
				bad("READ of the canary file: status %d, %d bytes", rd.Stat, len(rd.Data))
			}
		} else if w.Stat != stNOSPC {
			bad("WRITE to the canary file: status %d", w.Stat)
		}
		if rm := s.exec(&Op{K: OpRemove, H: s.srv.Root, Name: name}); rm.Stat != stOK {
			bad("REMOVE of the canary file: status %d", rm.Stat)
		}
	} else if cr.Stat != stNOSPC && cr.Stat != stIO {
		bad("CREATE of the canary file: status %d", cr.Stat)
	}
	s.srv.WaitIdle()
	fr := s.srv.Fsck(FsckOpts{CheckCaches: true})
	for _, m := range append(append(fr.Errs, fr.Leaks...), fr.CacheErrs...) {
		bad("fsck: %s", m)
	}
}

func runHostile(seed uint64, cas int, tier string) *HostileRes {
	res := &HostileRes{Keys: map[string]bool{}, Statuses: map[uint32]bool{}}
	rng := NewRng(mix(seed, uint64(cas)+111111))
	state := []string{"empty", "deep", "nearfull", "shrinking", "cold"}[cas%5]
	if cas%10 == 9 {
		// a disk with two block-bitmap blocks, filled up to the border between
		// them; files whose background free crosses that border
		state = "border"
	}
	p := Profile{Name: "C11", DiskBlocks: 30000, Unstable: cas%2 == 0, RPC: cas%3 == 1, W: allW(2), PBadName: 10, Own: []string{"canary", "crash", "hang", "memory"}}
	if state == "nearfull" {
		p.DiskBlocks = 2200
		p.NearFull = true
	}
	if state == "border" {
		p.DiskBlocks = 40000
	}
	mon.Reset(0, false)
	d := NewCDisk(p.DiskBlocks)
	srv := StartSrv(d, SrvOpts{Unstable: p.Unstable, RPC: p.RPC})
	lim, err := limitsOf(srv.API, srv.Root)
	sres := &SeqRes{Stats: Counter{}, States: map[string]bool{}, DeadProbes: Counter{}}
	s := &Sess{p: p, rng: rng, srv: srv, res: sres, inumSeen: map[uint64]int{}}
	if err != nil {
		res.Viol = append(res.Viol, Violation{Class: "canary", Msg: err.Error()})
		return res
	}
	s.m = NewModel(srv.Root, lim)
	s.m.AllowNoSpc = true // hostile sizes exhaust space and journal room; replies are not the oracle here
	s.names = namePool
	// ---- state ----------------------------------------------------------
	if state != "empty" {
		for i := 0; i < 40; i++ {
			s.exec(s.genOp())
		}
		if r := s.exec(&Op{K: OpCreate, H: srv.Root, Name: "sparse"}); r.Stat == stOK {
			s.nextUid++
			s.exec(&Op{K: OpWrite, H: r.FH, Off: (8+512+700)*BlockSize + 5, Count: 100, DataLen: 100, Uid: s.nextUid, Stable: 2})
			s.exec(&Op{K: OpSetattr, H: r.FH, SetSize: true, Size: lim.MaxFileSize})
		}
	}
	switch state {
	case "nearfull":
		s.fillDisk()
	case "shrinking":
		if r := s.exec(&Op{K: OpCreate, H: srv.Root, Name: "bigs"}); r.Stat == stOK {
			for k := 0; k < 10; k++ {
				s.nextUid++
				s.exec(&Op{K: OpWrite, H: r.FH, Off: uint64(k) * 60 * BlockSize, Count: 60 * BlockSize, DataLen: 60 * BlockSize, Uid: s.nextUid, Stable: 0})
			}
			s.exec(&Op{K: OpSetattr, H: r.FH, SetSize: true, Size: 10})
		}
	case "cold":
		s.restart()
	case "border":
		s.advanceAllocator(250)
		s.shrinkBoundarySweep()
		s.m.AllowNoSpc = true
	}
	// ---- hostile requests -------------------------------------------------
	n := 700
	if tier == "thorough" {
		n = 3000
	}
	for i := 0; i < n; i++ {
		op := s.genHostile(lim)
		if i%3 == 2 {
			// plausible requests on live objects (error paths behind valid
			// handles: existing targets of another kind, non-empty directories, ...)
			op = s.genOp()
		}
		childLog("hostile state=%s req=%d %s", state, i, op)
		// what the request may legitimately need: the bytes it supplies or asks
		// for (a READ never returns more than the file has)
		legit := uint64(op.DataLen)
		if op.K == OpRead {
			if o := s.m.Obj(op.H); o != nil && o.Kind == KReg && op.Off < o.Size {
				legit = minU64(uint64(op.Count), o.Size-op.Off)
			} else {
				legit = 0
			}
		}
		var ms0, ms1 runtime.MemStats
		runtime.ReadMemStats(&ms0)
		r := s.exec(op)
		runtime.ReadMemStats(&ms1)
		if got := ms1.TotalAlloc - ms0.TotalAlloc; got > 768<<20+8*legit {
			// (the counter is process-wide: it includes the harness's disk and reference and background installation of earlier requests, hence the generous base)
			res.Viol = append(res.Viol, Violation{Class: "memory", Msg: fmt.Sprintf("%s (status %d) made the process allocate %d MiB; the request supplies/asks for at most %d bytes that exist (two or three such requests at once exhaust the memory of the server)", op, r.Stat, got>>20, legit)})
			break
		}
		res.Requests++
		res.Keys[hostileKey(op, lim)] = true
		res.Statuses[r.Stat] = true
		if len(res.Sample) < 8 && r.Stat != stOK && i%40 == 3 {
			res.Sample = append(res.Sample, fmt.Sprintf("%s => %d", op, r.Stat))
		}
		if i%100 == 99 {
			s.canary(res, i)
		}
		if state == "cold" && i%250 == 200 {
			s.restart()
		}
	}
	s.canary(res, n)
	// ---- MOUNT procedures -------------------------------------------------
	for _, path := range []string{"", "/", "/x", longName(1023, 'p'), longName(1024, 'p'), longName(5000, 'p'), "\x00"} {
		childLog("MOUNT procedures path len %d", len(path))
		s.srv.N.MOUNTPROC3_NULL()
		mr := s.srv.N.MOUNTPROC3_MNT(nt.Dirpath3(path))
		_ = mr
		s.srv.N.MOUNTPROC3_DUMP()
		s.srv.N.MOUNTPROC3_UMNT(nt.Dirpath3(path))
		s.srv.N.MOUNTPROC3_UMNTALL()
		s.srv.N.MOUNTPROC3_EXPORT()
		res.Requests += 6
		res.Keys[fmt.Sprintf("MOUNT/%d", minInt(len(path), 1024))] = true
	}
	// ---- byte-level mutation of framed RPC messages ------------------------
	res.Fuzzed = fuzzFrames(s.srv.N, s.srv.N, rng, n/2, res, s, lim)
	s.canary(res, n+1)
	s.srv.WaitIdle()
	s.srv.Shutdown()
	// ---- simple.Nfs: every procedure with hostile arguments ----------------
	sd := NewCDisk(2000)
	ss := simple.MakeNfs(sd)
	uid := byte(0)
	for i := 0; i < n/2; i++ {
		var op *Op
		if i%2 == 0 {
			so := genSimpleOp(rng, false, &uid, nil)
			op = &Op{K: so.K, H: so.FH, Off: so.Off, Count: so.Count, Data: so.Data, DataLen: uint32(len(so.Data)), SetSize: so.SetSize, Size: so.Size, Name: so.Name, Stable: hostileEnum(rng)}
			if op.K == OpWrite && op.Data == nil {
				op.Data = []byte{}
			}
			if op.K == OpSetattr {
				op.Size = hostileU64(rng, lim)
			}
		} else {
			op = s.genHostile(lim)
			if op.K == OpWrite && op.DataLen > 1<<20 {
				op.DataLen = 1 << 20
			}
		}
		childLog("hostile simple req=%d %s", i, op)
		r := doOp(ss, op)
		res.Requests++
		res.Keys["simple/"+hostileKey(op, Limits{NameMax: 1, WtMax: 4096, MaxFileSize: 4096})] = true
		res.Statuses[r.Stat] = true
	}
	ss.MOUNTPROC3_NULL()
	ss.MOUNTPROC3_MNT("/")
	ss.MOUNTPROC3_DUMP()
	ss.MOUNTPROC3_UMNT("/")
	ss.MOUNTPROC3_UMNTALL()
	ss.MOUNTPROC3_EXPORT()
	// canary for simple: file 2 still works
	w := doOp(ss, &Op{K: OpSetattr, H: simpleFh(2, 16), SetSize: true, Size: 0})
	wr := doOp(ss, &Op{K: OpWrite, H: simpleFh(2, 16), Off: 0, Count: 4, DataLen: 4, Data: []byte("abcd"), Stable: 2})
	rd := doOp(ss, &Op{K: OpRead, H: simpleFh(2, 16), Off: 0, Count: 10})
	if w.Stat != stOK || wr.Stat != stOK || rd.Stat != stOK || string(rd.Data) != "abcd" {
		res.Viol = append(res.Viol, Violation{Class: "canary", Msg: fmt.Sprintf("simple server canary after hostile requests: SETATTR %d WRITE %d READ %d %q", w.Stat, wr.Stat, rd.Stat, rd.Data)})
	}
	return res
}

// fuzzFrames sends mutated copies of well-formed framed RPC calls over a raw
// connection to an rfc1057 server registered like cmd/go-nfsd.
func fuzzFrames(srv API, msrv MountAPI, rng *Rng, n int, res *HostileRes, s *Sess, lim Limits) int {
	rs := rfc1057.MakeServer()
	rs.RegisterMany(nt.MOUNT_PROGRAM_MOUNT_V3_regs(msrv))
	rs.RegisterMany(nt.NFS_PROGRAM_NFS_V3_regs(srv))
	var conn net.Conn
	dial := func() {
		if conn != nil {
			conn.Close()
		}
		a, b := net.Pipe()
		go rs.Run(b)
		conn = a
	}
	dial()
	defer func() { conn.Close() }()
	// seeds: encodings of structured requests
	mkCall := func(prog, vers, proc uint32, args xdr.Xdrable) []byte {
		var msg rfc1057.Rpc_msg
		msg.Xid = uint32(rng.U64())
		msg.Body.Mtype = rfc1057.CALL
		msg.Body.Cbody.Rpcvers = 2
		msg.Body.Cbody.Prog = prog
		msg.Body.Cbody.Vers = vers
		msg.Body.Cbody.Proc = proc
		msg.Body.Cbody.Cred.Flavor = rfc1057.AUTH_NONE
		msg.Body.Cbody.Verf.Flavor = rfc1057.AUTH_NONE
		w := xdr.MakeWriter(nil)
		msg.Xdr(w)
		args.Xdr(w)
		return w.WriteBuf()
	}
	count := 0
	for i := 0; i < n; i++ {
		op := s.genHostile(lim)
		if op.K == OpWrite && op.DataLen > 8192 {
			op.DataLen = 8192
		}
		op.Materialize()
		var proc uint32
		var args xdr.Xdrable
		switch op.K {
		case OpGetattr:
			proc, args = nt.NFSPROC3_GETATTR, &nt.GETATTR3args{Object: fh3(op.H)}
		case OpSetattr:
			proc, args = nt.NFSPROC3_SETATTR, &nt.SETATTR3args{Object: fh3(op.H), New_attributes: sattrOf(op)}
		case OpLookup:
			proc, args = nt.NFSPROC3_LOOKUP, &nt.LOOKUP3args{What: nt.Diropargs3{Dir: fh3(op.H), Name: nt.Filename3(op.Name)}}
		case OpRead:
			proc, args = nt.NFSPROC3_READ, &nt.READ3args{File: fh3(op.H), Offset: nt.Offset3(op.Off), Count: nt.Count3(op.Count)}
		case OpWrite:
			proc, args = nt.NFSPROC3_WRITE, &nt.WRITE3args{File: fh3(op.H), Offset: nt.Offset3(op.Off), Count: nt.Count3(op.Count), Stable: nt.Stable_how(op.Stable), Data: op.Data}
		case OpCreate:
			proc, args = nt.NFSPROC3_CREATE, &nt.CREATE3args{Where: nt.Diropargs3{Dir: fh3(op.H), Name: nt.Filename3(op.Name)}, How: nt.Createhow3{Mode: nt.Createmode3(op.Mode)}}
		case OpRemove:
			proc, args = nt.NFSPROC3_REMOVE, &nt.REMOVE3args{Object: nt.Diropargs3{Dir: fh3(op.H), Name: nt.Filename3(op.Name)}}
		case OpRename:
			proc, args = nt.NFSPROC3_RENAME, &nt.RENAME3args{From: nt.Diropargs3{Dir: fh3(op.H), Name: nt.Filename3(op.Name)}, To: nt.Diropargs3{Dir: fh3(op.H2), Name: nt.Filename3(op.Name2)}}
		case OpReaddirplus:
			proc, args = nt.NFSPROC3_READDIRPLUS, &nt.READDIRPLUS3args{Dir: fh3(op.H), Cookie: nt.Cookie3(op.Cookie), Dircount: nt.Count3(op.Dircount), Maxcount: nt.Count3(op.Count)}
		case OpReaddir:
			proc, args = nt.NFSPROC3_READDIR, &nt.READDIR3args{Dir: fh3(op.H), Cookie: nt.Cookie3(op.Cookie), Count: nt.Count3(op.Count)}
		case OpCommit:
			proc, args = nt.NFSPROC3_COMMIT, &nt.COMMIT3args{File: fh3(op.H), Offset: nt.Offset3(op.Off), Count: nt.Count3(op.Count)}
		case OpSymlink:
			proc, args = nt.NFSPROC3_SYMLINK, &nt.SYMLINK3args{Where: nt.Diropargs3{Dir: fh3(op.H), Name: nt.Filename3(op.Name)}, Symlink: nt.Symlinkdata3{Symlink_data: nt.Nfspath3(op.Target)}}
		default:
			proc, args = nt.NFSPROC3_ACCESS, &nt.ACCESS3args{Object: fh3(op.H)}
		}
		func() {
			defer func() { recover() }() // an argument the encoder refuses (too long) is simply skipped
			body := mkCall(nt.NFS_PROGRAM, nt.NFS_V3, proc, args)
			// the RPC header (xid, CALL, version 2, program, version, AUTH_NONE
			// credentials: 40 bytes) stays well-formed; the procedure number
			// and every byte of the arguments are mutated
			const hlen = 40
			k := rng.Intn(4)
			if rng.Intn(8) == 0 {
				body[23] = byte(rng.Intn(24))
			}
			for j := 0; j < k && len(body) > hlen; j++ {
				pos := hlen + rng.Intn(len(body)-hlen)
				switch rng.Intn(3) {
				case 0:
					body[pos] = byte(rng.U64())
				case 1:
					body[pos] ^= 1 << uint(rng.Intn(8))
				case 2:
					body[pos] = []byte{0, 0xff, 0x7f, 0x80}[rng.Intn(4)]
				}
			}
			if rng.Intn(10) == 0 && len(body) > hlen {
				body = body[:hlen+rng.Intn(len(body)-hlen)]
			}
			childLog("fuzz frame %d proc=%d mutations=%d len=%d bytes=%x", i, proc, k, len(body), body[:minInt(len(body), 160)])
			frame := make([]byte, 4+len(body))
			binary.BigEndian.PutUint32(frame, uint32(len(body))|1<<31)
			copy(frame[4:], body)
			count++
			res.Requests++
			conn.SetDeadline(time.Now().Add(30 * time.Second)) // pacing only: a missing reply is decided by the watchdog/canary
			if _, err := conn.Write(frame); err != nil {
				dial()
				return
			}
			// a reply or a closed connection; the watchdog handles a server that does neither
			var hdr [4]byte
			if _, err := io.ReadFull(conn, hdr[:]); err != nil {
				dial()
				return
			}
			l := int(binary.BigEndian.Uint32(hdr[:]) & 0x7fffffff)
			if l > 64<<20 {
				dial()
				return
			}
			buf := make([]byte, l)
			if _, err := io.ReadFull(conn, buf); err != nil {
				dial()
			}
		}()
		if i%150 == 149 {
			s.canaryTolerant(res, i)
		}
	}
	return count
}

// canaryTolerant: after byte-level fuzzing (which can name any handle and so
// cannot be mirrored in the reference) only liveness and fsck are required.
func (s *Sess) canaryTolerant(res *HostileRes, n int) {
	res.Canaries++
	if r := doOp(s.srv.API, &Op{K: OpGetattr, H: s.srv.Root}); r.Stat != stOK {
		res.Viol = append(res.Viol, Violation{Class: "canary", Msg: fmt.Sprintf("after %d fuzzed frames GETATTR of the root fails: %d", n, r.Stat)})
	}
	s.srv.WaitIdle()
	fr := s.srv.Fsck(FsckOpts{})
	for _, m := range append(fr.Errs, fr.Leaks...) {
		if knownOpen("C04", "rename-dir-across-directories") && (strings.Contains(m, "want (\"..\",") || strings.Contains(m, "orphan") || strings.Contains(m, "unreachable from the root")) {
			// mutated bytes can spell the open known findings (a directory
			// renamed into another parent / into its own subtree)
			continue
		}
		if len(res.Viol) < 10 {
			res.Viol = append(res.Viol, Violation{Class: "canary", Msg: fmt.Sprintf("after %d fuzzed frames fsck: %s", n, m)})
		}
	}
}
