package main

// Known findings (DESIGN §2.8): /verif/KNOWN_FINDINGS.txt is committed and
// never written at run time.
//   known: property=<id> sig=<name> <what fails>
//   fixed: property=<id> <commit> <what failed>
// An open "known:" entry makes generators avoid its trigger, makes the
// targeted probe print KNOWN-FINDING if the defect is still there, and
// suppresses nothing else.  A "fixed:" entry suppresses nothing.

import (
	"os"
	"path/filepath"
	"strings"
)

type knownEntry struct {
	Prop, Sig, Text string
}

var knownList []knownEntry

func loadKnown() {
	knownList = nil
	b, err := os.ReadFile(filepath.Join(verifDir, "KNOWN_FINDINGS.txt"))
	if err != nil {
		return
	}
	for _, l := range strings.Split(string(b), "\n") {
		l = strings.TrimSpace(l)
		if !strings.HasPrefix(l, "known:") {
			continue
		}
		f := strings.Fields(l[6:])
		e := knownEntry{}
		rest := []string{}
		for _, w := range f {
			switch {
			case strings.HasPrefix(w, "property=") && e.Prop == "":
				e.Prop = w[9:]
			case strings.HasPrefix(w, "sig=") && e.Sig == "":
				e.Sig = w[4:]
			default:
				rest = append(rest, w)
			}
		}
		e.Text = strings.Join(rest, " ")
		if e.Prop != "" && e.Sig != "" {
			knownList = append(knownList, e)
		}
	}
}

// knownOpen: is there an open known finding with this signature (for any
// property, or for prop if non-empty)?
func knownOpen(prop, sig string) bool {
	for _, e := range knownList {
		if e.Sig == sig && (prop == "" || e.Prop == prop) {
			return true
		}
	}
	return false
}

func knownText(prop, sig string) string {
	for _, e := range knownList {
		if e.Sig == sig && e.Prop == prop {
			return "sig=" + sig + " " + e.Text
		}
	}
	for _, e := range knownList {
		if e.Sig == sig {
			return "sig=" + sig + " " + e.Text
		}
	}
	return "sig=" + sig
}
