package main

// Tree walker (DESIGN §2.3): dumps everything a client can see, through the
// API only.

import (
	"bytes"
	"fmt"
	"sort"
)

type WalkErr struct{ Msgs []string }

// walkTolerant: on a nearly full disk a READ of a hole cannot materialise it
// and returns nothing; the walker then takes the rest of that piece as zeros
// (set only by sequential engines, never concurrently).
var walkTolerant bool

func (w *WalkErr) add(f string, a ...interface{}) {
	if len(w.Msgs) < 40 {
		w.Msgs = append(w.Msgs, fmt.Sprintf(f, a...))
	}
}

// listDir enumerates a directory completely with READDIRPLUS (large limits),
// cross-checked by READDIR.  Returns entries without "." and "..".
func listDir(api API, dirfh []byte, w *WalkErr, path string) ([]Ent, string) {
	var ents []Ent
	seen := map[string]bool{}
	cookie := uint64(0)
	for page := 0; ; page++ {
		r := doOp(api, &Op{K: OpReaddirplus, H: dirfh, Cookie: cookie, Count: 1 << 30, Dircount: 1 << 30})
		if r.Stat != stOK {
			w.add("walk: READDIRPLUS %s status %d", path, r.Stat)
			return ents, ""
		}
		for _, e := range r.Ents {
			if seen[e.Name] {
				w.add("walk: READDIRPLUS %s returned %s twice", path, shortName(e.Name))
				continue
			}
			seen[e.Name] = true
			ents = append(ents, e)
			cookie = e.Cookie
		}
		if r.Eof {
			break
		}
		if len(r.Ents) == 0 || page > 100000 {
			w.add("walk: READDIRPLUS %s makes no progress (page %d, cookie %d)", path, page, cookie)
			break
		}
	}
	// cross-check with READDIR
	names2 := map[string]uint64{}
	cookie = 0
	for page := 0; ; page++ {
		r := doOp(api, &Op{K: OpReaddir, H: dirfh, Cookie: cookie, Count: 1 << 30})
		if r.Stat != stOK {
			w.add("walk: READDIR %s status %d", path, r.Stat)
			break
		}
		for _, e := range r.Ents {
			if _, dup := names2[e.Name]; dup {
				w.add("walk: READDIR %s returned %s twice", path, shortName(e.Name))
			}
			names2[e.Name] = e.Fileid
			cookie = e.Cookie
		}
		if r.Eof {
			break
		}
		if len(r.Ents) == 0 || page > 100000 {
			w.add("walk: READDIR %s makes no progress", path)
			break
		}
	}
	if len(names2) != len(ents) {
		w.add("walk: %s READDIR lists %d names, READDIRPLUS %d", path, len(names2), len(ents))
	}
	for _, e := range ents {
		if id, ok := names2[e.Name]; !ok {
			w.add("walk: %s name %s in READDIRPLUS but not in READDIR", path, shortName(e.Name))
		} else if id != e.Fileid {
			w.add("walk: %s name %s fileid %d in READDIRPLUS, %d in READDIR", path, shortName(e.Name), e.Fileid, id)
		}
	}
	var out []Ent
	order := ""
	for _, e := range ents {
		order += fmt.Sprintf("%q:%d:%d,", e.Name, e.Fileid, e.Cookie)
		if e.Name != "." && e.Name != ".." {
			out = append(out, e)
		}
	}
	sort.Slice(out, func(i, j int) bool { return out[i].Name < out[j].Name })
	return out, order
}

// readPages reads the given pages of a file (nil = whole file) in pieces of
// at most 64 KiB and returns page -> bytes.
func readFile(api API, fh []byte, size uint64, pages []uint64, w *WalkErr, path string) map[uint64][]byte {
	out := map[uint64][]byte{}
	const chunk = 16 * BlockSize
	readRange := func(off, end uint64) {
		for off < end {
			n := minU64(chunk, end-off)
			r := doOp(api, &Op{K: OpRead, H: fh, Off: off, Count: uint32(n)})
			if r.Stat != stOK {
				w.add("walk: READ %s off %d status %d", path, off, r.Stat)
				return
			}
			if len(r.Data) == 0 {
				if walkTolerant {
					// skip the block that could not be materialised
					off = (off/BlockSize + 1) * BlockSize
					continue
				}
				w.add("walk: READ %s off %d (size %d) returned no data", path, off, size)
				return
			}
			for i := uint64(0); i < uint64(len(r.Data)); {
				pg := (off + i) / BlockSize
				po := (off + i) % BlockSize
				k := minU64(BlockSize-po, uint64(len(r.Data))-i)
				p, ok := out[pg]
				if !ok {
					p = make([]byte, BlockSize)
					out[pg] = p
				}
				copy(p[po:po+k], r.Data[i:i+k])
				i += k
			}
			off += uint64(len(r.Data))
			if r.Eof && off < size {
				w.add("walk: READ %s eof at %d but size %d", path, off, size)
				return
			}
		}
	}
	if pages == nil {
		readRange(0, size)
		return out
	}
	// coalesce consecutive pages
	for i := 0; i < len(pages); {
		j := i
		for j+1 < len(pages) && pages[j+1] == pages[j]+1 && pages[j+1]-pages[i] < 16 {
			j++
		}
		readRange(pages[i]*BlockSize, minU64((pages[j]+1)*BlockSize, size))
		i = j + 1
	}
	return out
}

// walkTree dumps the tree below rootfh.  hint (may be nil) returns the probe
// pages for files larger than fullReadCap.
func walkTree(api API, rootfh []byte, hint func(path string) []uint64) ([]DumpEnt, *WalkErr) {
	w := &WalkErr{}
	var out []DumpEnt
	visited := map[string]string{} // handle -> path (cycle / double-name guard)
	var rec func(fh []byte, path string, depth int)
	rec = func(fh []byte, path string, depth int) {
		if depth > 64 {
			w.add("walk: depth > 64 at %s (cycle?)", path)
			return
		}
		if p, ok := visited[string(fh)]; ok {
			w.add("walk: object %x reachable as %s and %s", fh, p, path)
			return
		}
		visited[string(fh)] = path
		ga := doOp(api, &Op{K: OpGetattr, H: fh})
		if ga.Stat != stOK {
			w.add("walk: GETATTR %s status %d", path, ga.Stat)
			return
		}
		e := DumpEnt{Path: path, Kind: int(ga.Ftype), FH: fh, Fileid: ga.Fileid, Atime: ga.Atime, Mtime: ga.Mtime, Attrs: ga.Attrs}
		switch int(ga.Ftype) {
		case KReg:
			e.Size = ga.Size
			var pages []uint64
			if ga.Size > fullReadCap {
				if hint != nil {
					pages = hint(path)
				}
				if pages == nil {
					npg := (ga.Size + BlockSize - 1) / BlockSize
					pages = []uint64{0, npg - 1}
				}
			}
			data := readFile(api, fh, ga.Size, pages, w, path)
			e.Hash = contentHash(ga.Size, func(pg uint64) []byte { return data[pg] }, pages)
			out = append(out, e)
		case KLnk:
			rl := doOp(api, &Op{K: OpReadlink, H: fh})
			if rl.Stat != stOK {
				w.add("walk: READLINK %s status %d", path, rl.Stat)
			}
			e.Target = rl.Target
			out = append(out, e)
		case KDir:
			idx := len(out)
			out = append(out, e)
			ents, order := listDir(api, fh, w, path)
			out[idx].List = order
			for _, c := range ents {
				cpath := path + "/" + quoteName(c.Name)
				lk := doOp(api, &Op{K: OpLookup, H: fh, Name: c.Name})
				if lk.Stat != stOK {
					w.add("walk: LOOKUP %s status %d although listed", cpath, lk.Stat)
					continue
				}
				if lk.HasAttr && lk.Fileid != c.Fileid {
					w.add("walk: %s listed with fileid %d, LOOKUP says %d", cpath, c.Fileid, lk.Fileid)
				}
				if c.HasFH && !bytes.Equal(c.FH, lk.FH) {
					w.add("walk: %s READDIRPLUS handle %x, LOOKUP handle %x", cpath, c.FH, lk.FH)
				}
				if c.HasAttr && lk.HasAttr && (c.Ftype != lk.Ftype || (c.Ftype != KDir && c.Size != lk.Size)) {
					w.add("walk: %s READDIRPLUS attributes (type %d size %d) differ from LOOKUP (type %d size %d)", cpath, c.Ftype, c.Size, lk.Ftype, lk.Size)
				}
				rec(lk.FH, cpath, depth+1)
			}
			// "." and ".."
			dot := doOp(api, &Op{K: OpLookup, H: fh, Name: "."})
			if dot.Stat != stOK || !bytes.Equal(dot.FH, fh) {
				w.add("walk: LOOKUP %s/. gives status %d handle %x, want %x", path, dot.Stat, dot.FH, fh)
			}
		default:
			w.add("walk: %s has unexpected type %d", path, ga.Ftype)
		}
	}
	rec(rootfh, "", 0)
	return out, w
}

// handleMap returns path -> handle of a dump.
func handleMap(es []DumpEnt) map[string][]byte {
	m := map[string][]byte{}
	for _, e := range es {
		m[e.Path] = e.FH
	}
	return m
}
