package main

// End-to-end engine: the real cmd/go-nfsd binary (built from the tree under
// test WITHOUT the verif tag) is started behind a fake port mapper on
// localhost:111, on a file disk, and driven over TCP through rfc1057/XDR
// with the same state-aware generator and reference model as the sequential
// engine.  What this reaches that the in-process engines cannot: main.go's
// own wiring (registration of both programs, the -unstable and -stats
// options, the disk-size arithmetic, signal handling), goose's FileDisk, a
// real process that can be killed (SIGKILL) and restarted on its disk file,
// and the observable consequence of a panic (the process is gone).
//
// Oracles: every reply and the whole visible tree against the reference
// (C02/C16: each procedure number reaches the handler of that procedure -
// otherwise replies have the wrong type or effect); after a clean shutdown
// (SIGINT) or a SIGKILL and a restart on the same file the tree, the bytes
// and every handle are unchanged (C10/C01); with -unstable=false every WRITE
// is answered FILE_SYNC and survives a SIGKILL right after the reply (C07);
// the write verifier is constant within an instance and differs between
// instances (C07); hostile requests never end the process (C11).
//
// Port 111 is machine-wide: jobs are serialised by a lock file.  If the port
// cannot be bound the job is inconclusive, never a violation.

import (
	"bytes"
	"fmt"
	"net"
	"os"
	"os/exec"
	"path/filepath"
	"sync"
	"syscall"
	"time"

	nt "github.com/mit-pdos/go-nfsd/nfstypes"
	"github.com/zeldovich/go-rpcgen/rfc1057"
)

type pmapSrv struct {
	mu    sync.Mutex
	maps  map[[2]uint32]uint32
	setCh chan rfc1057.Mapping
	ls    []net.Listener
	sets  int
	unsets int
}

func (p *pmapSrv) PMAPPROC_NULL() {}
func (p *pmapSrv) PMAPPROC_SET(m rfc1057.Mapping) rfc1057.Xbool {
	p.mu.Lock()
	p.maps[[2]uint32{m.Prog, m.Vers}] = m.Port
	p.sets++
	p.mu.Unlock()
	select {
	case p.setCh <- m:
	default:
	}
	return true
}
func (p *pmapSrv) PMAPPROC_UNSET(m rfc1057.Mapping) rfc1057.Xbool {
	p.mu.Lock()
	delete(p.maps, [2]uint32{m.Prog, m.Vers})
	p.unsets++
	p.mu.Unlock()
	return true
}
func (p *pmapSrv) PMAPPROC_GETPORT(m rfc1057.Mapping) rfc1057.Uint32 {
	p.mu.Lock()
	defer p.mu.Unlock()
	return rfc1057.Uint32(p.maps[[2]uint32{m.Prog, m.Vers}])
}
func (p *pmapSrv) PMAPPROC_DUMP() rfc1057.Pmaplist { return rfc1057.Pmaplist{} }
func (p *pmapSrv) PMAPPROC_CALLIT(rfc1057.Call_args) rfc1057.Call_result {
	return rfc1057.Call_result{}
}

func startPmap() (*pmapSrv, error) {
	p := &pmapSrv{maps: map[[2]uint32]uint32{}, setCh: make(chan rfc1057.Mapping, 16)}
	srv := rfc1057.MakeServer()
	srv.RegisterMany(rfc1057.PMAP_PROG_PMAP_VERS_regs(p))
	var firstErr error
	for _, a := range []string{"127.0.0.1:111", "[::1]:111"} {
		l, err := net.Listen("tcp", a)
		if err != nil {
			if firstErr == nil {
				firstErr = err
			}
			continue
		}
		p.ls = append(p.ls, l)
		go func(l net.Listener) {
			for {
				c, err := l.Accept()
				if err != nil {
					return
				}
				go func() { srv.Run(c); c.Close() }()
			}
		}(l)
	}
	if len(p.ls) == 0 {
		return nil, firstErr
	}
	return p, nil
}

func (p *pmapSrv) Close() {
	for _, l := range p.ls {
		l.Close()
	}
}

type e2eProc struct {
	cmd    *exec.Cmd
	port   uint32
	done   chan struct{}
	err    error
	logf   string
}

func (e *e2eProc) exited() bool {
	select {
	case <-e.done:
		return true
	default:
		return false
	}
}

func tailFile(path string, n int) string {
	b, err := os.ReadFile(path)
	if err != nil {
		return ""
	}
	if len(b) > n {
		b = b[len(b)-n:]
	}
	return string(b)
}

func headFile(path string, n int) string {
	b, err := os.ReadFile(path)
	if err != nil {
		return ""
	}
	if len(b) > n {
		b = b[:n]
	}
	return string(b)
}

// startDaemon starts the server binary and waits until it has registered the
// NFS program with the port mapper.  ok=false, inconclusive != "": could not
// be decided; ok=false, inconclusive == "": the process died while starting.
func startDaemon(bin string, args []string, pm *pmapSrv, logf string) (*e2eProc, string) {
	for len(pm.setCh) > 0 {
		<-pm.setCh
	}
	lf, err := os.OpenFile(logf, os.O_CREATE|os.O_WRONLY|os.O_APPEND, 0644)
	if err != nil {
		return nil, "cannot open log file: " + err.Error()
	}
	cmd := exec.Command(bin, args...)
	cmd.Stdout, cmd.Stderr = lf, lf
	cmd.Env = append(os.Environ(), "GOTRACEBACK=all")
	if err := cmd.Start(); err != nil {
		lf.Close()
		return nil, "cannot start " + bin + ": " + err.Error()
	}
	lf.Close()
	p := &e2eProc{cmd: cmd, done: make(chan struct{}), logf: logf}
	go func() { p.err = cmd.Wait(); close(p.done) }()
	deadline := time.After(120 * time.Second)
	for {
		select {
		case m := <-pm.setCh:
			if m.Prog == nt.NFS_PROGRAM && m.Port != 0 {
				p.port = m.Port
				// the server object is made after the registration: the first
				// request simply waits in the listen queue until Accept runs
				return p, ""
			}
		case <-p.done:
			return p, ""
		case <-deadline:
			cmd.Process.Kill()
			<-p.done
			return nil, "server binary did not register with the port mapper within 120 s"
		}
	}
}

type E2ERes struct {
	Viol         []Violation
	Inconclusive []string
	Ops          int
	Stats        Counter
	Restarts     int
	Kills        int
	Instances    int
	VerfSeen     int
	Walks        int
	Hostile      int
	Sample       []string
}

func (s *rpcStub) dialTCP(addr string, prog, vers uint32) (*rfc1057.Client, error) {
	var c net.Conn
	var err error
	for i := 0; i < 200; i++ {
		c, err = net.Dial("tcp", addr)
		if err == nil {
			break
		}
		time.Sleep(25 * time.Millisecond)
	}
	if err != nil {
		return nil, err
	}
	s.mu.Lock()
	s.conns = append(s.conns, c)
	s.mu.Unlock()
	return rfc1057.MakeClient(c, prog, vers), nil
}

func newTCPStub(addr string) (*rpcStub, error) {
	st := &rpcStub{}
	var err error
	if st.c, err = st.dialTCP(addr, nt.NFS_PROGRAM, nt.NFS_V3); err != nil {
		return nil, err
	}
	if st.mc, err = st.dialTCP(addr, nt.MOUNT_PROGRAM, nt.MOUNT_V3); err != nil {
		return nil, err
	}
	return st, nil
}

func e2eLock() (*os.File, error) {
	// machine-wide (port 111 is): created on demand, nothing depends on it
	f, err := os.OpenFile(filepath.Join(os.TempDir(), "verif-e2e-port111.lock"), os.O_CREATE|os.O_RDWR, 0666)
	if err != nil {
		return nil, err
	}
	if err := syscall.Flock(int(f.Fd()), syscall.LOCK_EX); err != nil {
		f.Close()
		return nil, err
	}
	return f, nil
}

// runE2E: mode "clean" (SIGINT restarts), "kill" (flush, SIGKILL, recover),
// "sync" (-unstable=false; SIGKILL right after a reply, nothing may be lost),
// "hostile" (hostile requests; the process must stay alive), "stats" (-stats
// with SIGUSR1 next to the load, clean restarts).
func runE2E(seed uint64, cas int, mode string, nops int) *E2ERes {
	res := &E2ERes{Stats: Counter{}}
	bin := filepath.Join(verifDir, ".build", "go-nfsd")
	if _, err := os.Stat(bin); err != nil {
		res.Inconclusive = append(res.Inconclusive, "e2e: server binary "+bin+" was not built")
		return res
	}
	lk, err := e2eLock()
	if err != nil {
		res.Inconclusive = append(res.Inconclusive, "e2e: lock file: "+err.Error())
		return res
	}
	defer lk.Close()
	pm, err := startPmap()
	if err != nil {
		res.Inconclusive = append(res.Inconclusive, "e2e: port 111 cannot be bound for the fake port mapper: "+err.Error())
		return res
	}
	defer pm.Close()
	rng := NewRng(mix(seed, uint64(cas)+777777))
	dir := filepath.Join(verifDir, ".build", "e2e")
	os.MkdirAll(dir, 0755)
	img := filepath.Join(dir, fmt.Sprintf("%d-%d-%d.img", os.Getpid(), seed, cas))
	logf := img + ".log"
	os.Remove(img)
	os.Remove(logf)
	defer os.Remove(img)
	mb := []uint64{3, 8, 24, 40}[rng.Intn(4)]
	unstable := mode != "sync"
	args := []string{"-disk", img, "-size", fmt.Sprint(mb)}
	if !unstable {
		args = append(args, "-unstable=false")
	}
	if mode == "stats" {
		args = append(args, "-stats")
	}
	viol := func(class, f string, a ...interface{}) {
		res.Viol = append(res.Viol, Violation{Class: class, Msg: "e2e(" + mode + "): " + fmt.Sprintf(f, a...)})
	}
	var proc *e2eProc
	var stub *rpcStub
	var root []byte
	start := func(when string) bool {
		p, inc := startDaemon(bin, args, pm, logf)
		if inc != "" {
			res.Inconclusive = append(res.Inconclusive, "e2e: "+inc)
			return false
		}
		proc = p
		if p.exited() {
			viol("crash", "the server process ended while starting %s (%v); its output ends:\n%s", when, p.err, tailFile(logf, 1500))
			return false
		}
		res.Instances++
		st, err := newTCPStub(fmt.Sprintf("127.0.0.1:%d", p.port))
		if err != nil {
			if p.exited() {
				viol("crash", "the server process ended while starting %s (%v); its output ends:\n%s", when, p.err, tailFile(logf, 1500))
			} else {
				res.Inconclusive = append(res.Inconclusive, "e2e: cannot connect to the server: "+err.Error())
			}
			return false
		}
		stub = st
		r, err := st.MountRoot()
		if err != nil {
			viol("reply", "MOUNTPROC3_MNT %s: %v", when, err)
			return false
		}
		if !bytes.Equal(r, rootHandle()) {
			viol("handle", "MOUNTPROC3_MNT %s returned root handle %x, the root handle is %x", when, r, rootHandle())
			return false
		}
		root = r
		return true
	}
	stop := func(kill bool) bool {
		stub.Close()
		if kill {
			proc.cmd.Process.Signal(syscall.SIGKILL)
			res.Kills++
		} else {
			proc.cmd.Process.Signal(syscall.SIGINT)
		}
		select {
		case <-proc.done:
		case <-time.After(180 * time.Second):
			proc.cmd.Process.Signal(syscall.SIGQUIT)
			time.Sleep(time.Second)
			proc.cmd.Process.Kill()
			<-proc.done
			res.Inconclusive = append(res.Inconclusive, "e2e: the server did not exit within 180 s of SIGINT; goroutine dump in "+logf)
			return false
		}
		if !kill {
			if ee, ok := proc.err.(*exec.ExitError); ok && ee.ExitCode() != 0 {
				viol("crash", "clean shutdown (SIGINT) ended with %v; output ends:\n%s", proc.err, tailFile(logf, 1500))
				return false
			}
		}
		return true
	}
	if !start("on a blank disk file") {
		return res
	}
	defer func() {
		if proc != nil && !proc.exited() {
			proc.cmd.Process.Kill()
			<-proc.done
		}
		if len(res.Viol) == 0 {
			os.Remove(logf)
		}
	}()
	srv := &Srv{API: stub, stub: stub, Root: root, Opts: SrvOpts{Unstable: unstable, RPC: true}}
	lim, err := limitsOf(srv.API, srv.Root)
	if err != nil {
		viol("reply", "%v", err)
		return res
	}
	p := Profile{Name: "E2E", NOps: nops, DiskBlocks: 1500 + mb*256, W: allW(4), PDead: 6, PWrongKind: 6, PBadName: 8, Unstable: unstable, RPC: true,
		Own: []string{"reply", "dump", "handle", "content", "crash", "verf"}}
	sres := &SeqRes{Profile: "E2E", Seed: seed, Case: cas, Stats: res.Stats, States: map[string]bool{}, DeadProbes: Counter{}}
	s := &Sess{p: p, rng: rng, srv: srv, res: sres, inumSeen: map[uint64]int{}}
	s.m = NewModel(root, lim)
	s.m.ForceSync = !unstable
	s.m.AllowNoSpc = mode == "hostile"
	s.names = append([]string{}, namePool...)
	s.names = append(s.names, longName(lim.NameMax, 'Q'))
	var curVerf *[8]byte
	var oldVerfs [][8]byte
	noteVerf := func(op *Op, r *Res) {
		if r.Stat != stOK || (op.K != OpWrite && op.K != OpCommit) {
			return
		}
		res.VerfSeen++
		if curVerf == nil {
			v := r.Verf
			curVerf = &v
			for _, o := range oldVerfs {
				if o == v {
					viol("verf", "write verifier %x of this server instance equals the verifier of an earlier instance (a client cannot tell that unstable data may have been lost)", v)
				}
			}
		} else if *curVerf != r.Verf {
			viol("verf", "write verifier changed within one server instance: %x then %x", *curVerf, r.Verf)
		}
	}
	alive := func(op *Op) bool {
		if proc.exited() {
			viol("crash", "the server process ended (%v) during request %d %s; its output ends:\n%s", proc.err, s.step, op, tailFile(logf, 2500))
			return false
		}
		return true
	}
	flushN := 0
	flush := func() {
		// a stable namespace operation: the log is written in order, so every
		// unstable operation before it is durable when it returns
		flushN++
		nm := fmt.Sprintf("zzflush%d", flushN)
		r := s.exec(&Op{K: OpCreate, H: root, Name: nm})
		if r.Stat == stOK {
			s.exec(&Op{K: OpRemove, H: root, Name: nm})
		}
	}
	restart := func(kill, doFlush bool) bool {
		if doFlush {
			flush()
		}
		childLog("e2e %s at step %d", map[bool]string{true: "SIGKILL", false: "SIGINT"}[kill], s.step)
		s.logOp(fmt.Sprintf("%d RESTART kill=%v", s.step, kill))
		if !stop(kill) {
			return false
		}
		if curVerf != nil {
			oldVerfs = append(oldVerfs, *curVerf)
			curVerf = nil
		}
		if !start(fmt.Sprintf("on its disk file after a %s at step %d", map[bool]string{true: "SIGKILL", false: "clean shutdown"}[kill], s.step)) {
			return false
		}
		srv.API, srv.stub, s.srv = stub, stub, srv
		res.Restarts++
		s.walkCompare("dump", fmt.Sprintf("after restart %d (kill=%v) following op %d", res.Restarts, kill, s.step))
		res.Walks++
		return !s.stop && len(res.Viol) == 0
	}
	// hostile mode: replies to hostile requests are not the oracle (C11 asks
	// for a reply, a live process and a server that keeps serving): a canary
	// through the API replaces the comparison with the reference
	canary := func(n int) {
		res.Walks++
		if r := doOp(stub, &Op{K: OpGetattr, H: root}); r.Stat != stOK || r.Ftype != KDir {
			viol("canary", "after %d requests GETATTR of the root: status %d type %d", n, r.Stat, r.Ftype)
			return
		}
		name := fmt.Sprintf("e2e-canary-%d", n)
		cr := doOp(stub, &Op{K: OpCreate, H: root, Name: name})
		if cr.Stat == stNOSPC || cr.Stat == stIO {
			return // the hostile requests may have filled the disk or the directory
		}
		if cr.Stat != stOK {
			viol("canary", "after %d requests CREATE of a fresh name in the root: status %d", n, cr.Stat)
			return
		}
		w := &Op{K: OpWrite, H: cr.FH, Off: 100, Count: 5000, DataLen: 5000, Uid: uint64(n) + 9000, Stable: 2}
		w.Materialize()
		if wr := doOp(stub, w); wr.Stat == stOK {
			rd := doOp(stub, &Op{K: OpRead, H: cr.FH, Off: 0, Count: 8192})
			want := append(make([]byte, 100), w.Data[:wr.Count]...)
			if rd.Stat != stOK || !bytes.Equal(rd.Data, want) {
				viol("canary", "after %d requests the canary file reads back wrong: status %d, %d bytes (wrote %d at offset 100)", n, rd.Stat, len(rd.Data), wr.Count)
			}
		} else if wr.Stat != stNOSPC {
			viol("canary", "after %d requests WRITE to the canary file: status %d", n, wr.Stat)
		}
		if rm := doOp(stub, &Op{K: OpRemove, H: root, Name: name}); rm.Stat != stOK {
			viol("canary", "after %d requests REMOVE of the canary file: status %d", n, rm.Stat)
		}
	}
	every := 25 + rng.Intn(15)
	for i := 0; i < nops && (!s.stop || mode == "hostile"); i++ {
		var op *Op
		if len(s.queue) > 0 {
			op = s.queue[0]
			s.queue = s.queue[1:]
			if s.m.Obj(op.H) == nil {
				op = nil
			}
		}
		if op != nil {
		} else if mode == "hostile" && i%3 != 2 {
			op = s.genHostile(lim)
			if op.K == OpWrite && op.DataLen > 4<<20 {
				op.DataLen = 4 << 20
			}
			res.Hostile++
		} else {
			op = s.genOp()
		}
		childLog("e2e mode=%s req=%d %s", mode, i, op)
		r := s.exec(op)
		res.Ops++
		if !alive(op) {
			break
		}
		noteVerf(op, r)
		if len(res.Sample) < 10 && i%17 == 3 {
			res.Sample = append(res.Sample, fmt.Sprintf("%s => %d", op, r.Stat))
		}
		if mode == "stats" && i%20 == 7 {
			proc.cmd.Process.Signal(syscall.SIGUSR1)
		}
		if (i+1)%every == 0 && i+1 < nops {
			switch mode {
			case "clean", "stats":
				if !restart(false, true) {
					goto out
				}
			case "kill":
				if !restart(res.Restarts%2 == 0, true) {
					goto out
				}
			case "sync":
				// nothing is unstable: the kill needs no flush
				if !restart(true, false) {
					goto out
				}
			case "hostile":
				canary(i)
			}
		}
	}
out:
	if mode == "hostile" {
		if len(res.Viol) == 0 && !proc.exited() {
			canary(nops)
		}
		// differences between replies to hostile requests and the reference are
		// not C11's business (the in-process hostile engine treats them alike)
		sres.Viol = nil
	} else if len(res.Viol) == 0 && !s.stop && !proc.exited() {
		s.walkCompare("dump", "at the end")
		res.Walks++
		alive(&Op{K: OpNull})
	}
	for _, v := range sres.Viol {
		v.Msg = "e2e(" + mode + "): " + v.Msg
		if v.Class == "reply" && proc.exited() {
			v.Class = "crash"
			v.Msg += "\nthe server process ended (" + fmt.Sprint(proc.err) + "); its output ends:\n" + tailFile(logf, 2500)
		}
		res.Viol = append(res.Viol, v)
	}
	if len(res.Viol) == 0 && !proc.exited() {
		stop(false)
		if mode == "stats" {
			if out := headFile(logf, 1<<20); !bytes.Contains([]byte(out), []byte("GETATTR")) && !bytes.Contains([]byte(out), []byte("getattr")) {
				// statistics must have been written on SIGUSR1 / at shutdown
				res.Inconclusive = append(res.Inconclusive, "e2e(stats): no per-operation statistics found in the server's output")
			}
		}
	}
	if len(sres.OpLog) > 0 && len(res.Viol) > 0 {
		n := len(sres.OpLog)
		if n > 40 {
			sres.OpLog = sres.OpLog[n-40:]
		}
		res.Sample = append(res.Sample, sres.OpLog...)
	}
	return res
}

// runE2ESimple: the real cmd/simple-nfsd binary behind the fake port mapper,
// driven over TCP with the boundary-dense generator and the specification
// model of the simple server (30 files of at most 4096 bytes).  Every
// request of the simple server is acknowledged durably, so the process is
// killed (SIGKILL, alternately SIGINT) right after replies and restarted on
// its disk file: all 30 files must read back exactly as the model has them.
func runE2ESimple(seed uint64, cas int, nops int) *E2ERes {
	res := &E2ERes{Stats: Counter{}}
	bin := filepath.Join(verifDir, ".build", "simple-nfsd")
	if _, err := os.Stat(bin); err != nil {
		res.Inconclusive = append(res.Inconclusive, "e2e: server binary "+bin+" was not built")
		return res
	}
	lk, err := e2eLock()
	if err != nil {
		res.Inconclusive = append(res.Inconclusive, "e2e: lock file: "+err.Error())
		return res
	}
	defer lk.Close()
	pm, err := startPmap()
	if err != nil {
		res.Inconclusive = append(res.Inconclusive, "e2e: port 111 cannot be bound for the fake port mapper: "+err.Error())
		return res
	}
	defer pm.Close()
	rng := NewRng(mix(seed, uint64(cas)+888888))
	dir := filepath.Join(verifDir, ".build", "e2e")
	os.MkdirAll(dir, 0755)
	img := filepath.Join(dir, fmt.Sprintf("simple-%d-%d-%d.img", os.Getpid(), seed, cas))
	logf := img + ".log"
	os.Remove(img)
	os.Remove(logf)
	defer os.Remove(img)
	viol := func(class, f string, a ...interface{}) {
		if len(res.Viol) < 8 {
			res.Viol = append(res.Viol, Violation{Class: class, Msg: "e2e(simple-nfsd): " + fmt.Sprintf(f, a...)})
		}
	}
	var proc *e2eProc
	var stub *rpcStub
	start := func(when string) bool {
		p, inc := startDaemon(bin, []string{"-disk", img}, pm, logf)
		if inc != "" {
			res.Inconclusive = append(res.Inconclusive, "e2e: "+inc)
			return false
		}
		proc = p
		if p.exited() {
			viol("crash", "the server process ended while starting %s (%v); its output ends:\n%s", when, p.err, tailFile(logf, 1500))
			return false
		}
		res.Instances++
		st, err := newTCPStub(fmt.Sprintf("127.0.0.1:%d", p.port))
		if err != nil {
			if p.exited() {
				viol("crash", "the server process ended while starting %s (%v); its output ends:\n%s", when, p.err, tailFile(logf, 1500))
			} else {
				res.Inconclusive = append(res.Inconclusive, "e2e: cannot connect to the server: "+err.Error())
			}
			return false
		}
		stub = st
		if _, err := st.MountRoot(); err != nil {
			viol("simple", "MOUNTPROC3_MNT %s: %v", when, err)
			return false
		}
		return true
	}
	stop := func(kill bool) bool {
		stub.Close()
		if kill {
			proc.cmd.Process.Signal(syscall.SIGKILL)
			res.Kills++
		} else {
			proc.cmd.Process.Signal(syscall.SIGINT)
		}
		select {
		case <-proc.done:
		case <-time.After(180 * time.Second):
			proc.cmd.Process.Kill()
			<-proc.done
			res.Inconclusive = append(res.Inconclusive, "e2e: simple-nfsd did not exit within 180 s of SIGINT")
			return false
		}
		return true
	}
	if !start("on a blank disk file") {
		return res
	}
	defer func() {
		if proc != nil && !proc.exited() {
			proc.cmd.Process.Kill()
			<-proc.done
		}
		if len(res.Viol) == 0 {
			os.Remove(logf)
		}
	}()
	m := &simpleModel{}
	readAll := func(when string) bool {
		for i := uint64(2); i < simpleNInode; i++ {
			ga := doSimple(stub, &sOp{K: OpGetattr, FH: simpleFh(i, 16)})
			rd := doSimple(stub, &sOp{K: OpRead, FH: simpleFh(i, 16), Off: 0, Count: 4096})
			if e := stub.Err(); e != nil {
				viol("crash", "%s: transport error reading file %d: %v; server output ends:\n%s", when, i, e, tailFile(logf, 1500))
				return false
			}
			if ga.Stat != stOK || rd.Stat != stOK || ga.Size != uint64(len(m.data[i])) || !bytes.Equal(rd.Data, m.data[i]) {
				viol("simple", "%s: file %d: GETATTR status %d size %d, READ status %d returns %d bytes (hash %s); the specification has %d bytes (hash %s)", when, i, ga.Stat, ga.Size, rd.Stat, len(rd.Data), hashBytes(rd.Data), len(m.data[i]), hashBytes(m.data[i]))
				return false
			}
		}
		res.Walks++
		return true
	}
	uid := byte(0)
	every := 20 + rng.Intn(15)
	var oplog []string
	for i := 0; i < nops && len(res.Viol) == 0; i++ {
		o := genSimpleOp(rng, i%4 == 0, &uid, func(inum uint64) uint64 {
			if validSimpleInum(inum) {
				return uint64(len(m.data[inum]))
			}
			return 0
		})
		childLog("e2e simple-nfsd req=%d %s", i, o)
		r := doSimple(stub, o)
		res.Ops++
		if e := stub.Err(); e != nil || proc.exited() {
			viol("crash", "request %d %s: transport error %v, process exited: %v (%v); server output ends:\n%s", i, o, e, proc.exited(), proc.err, tailFile(logf, 2500))
			break
		}
		cls := "ok"
		if r.Stat != stOK {
			cls = "err"
		}
		res.Stats.Add(fmt.Sprintf("%s/%s/%s", o.K, cls, simpleArgClass(o)))
		oplog = append(oplog, fmt.Sprintf("%s => %d", o, r.Stat))
		if msg := m.apply(o, r); msg != "" {
			viol("simple", "request %d %s: %s", i, o, msg)
			break
		}
		if (i+1)%every == 0 {
			kill := res.Restarts%3 != 2
			childLog("e2e simple-nfsd restart kill=%v after request %d", kill, i)
			if !stop(kill) {
				break
			}
			if !start(fmt.Sprintf("on its disk file after restart %d (kill=%v)", res.Restarts+1, kill)) {
				break
			}
			res.Restarts++
			if !readAll(fmt.Sprintf("after restart %d (kill=%v, right after the reply to request %d %s)", res.Restarts, kill, i, o)) {
				break
			}
		}
	}
	if len(res.Viol) == 0 && len(res.Inconclusive) == 0 {
		readAll("at the end")
		stop(false)
	}
	if len(oplog) > 10 {
		res.Sample = oplog[:10]
	} else {
		res.Sample = oplog
	}
	if len(res.Viol) > 0 && len(oplog) > 0 {
		res.Sample = append(res.Sample, oplog[maxInt(0, len(oplog)-30):]...)
	}
	return res
}
